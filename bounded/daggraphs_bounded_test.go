package dag
// govc:bounded props=C13,C14,C16 pkg=dag run=TestGovcBoundedDagGraphs what=DepthFirstSort on acyclic graphs (not rejected, every vertex exactly once, dependencies first), cycle rejection, and Run returning with dependency order and skip/failure propagation on every small graph (clauses that need a whole-run argument or liveness)

// BOUNDED STAND-IN (not a proof; labelled bounded in the evidence, never counted as discharged).
// Enumerates every directed graph (self loops included) on 1..4 vertices built through the public API and compares
// DepthFirstSort with an independent cycle test; on every acyclic graph with <= 4 vertices and every assignment of
// outcomes {ok, fail, skip-parents} to its vertices (<= 3 vertices: all assignments; 4 vertices: ok only) runs the graph in
// parallel, bounded(1) and serial mode and checks the run against the statements of C13/C14/C16.

import (
	"context"
	"errors"
	"fmt"
	"io"
	"log"
	"sync"
	"testing"
	"time"

	"github.com/DavidGamba/go-getoptions"
)

func bCyclic(n int, adj [][]bool) bool {
	// Kahn: repeatedly remove vertices without outgoing dependency edges
	removed := make([]bool, n)
	for left := n; left > 0; {
		found := false
		for v := 0; v < n; v++ {
			if removed[v] {
				continue
			}
			free := true
			for w := 0; w < n; w++ {
				if adj[v][w] && !removed[w] {
					free = false
				}
			}
			if free {
				removed[v] = true
				left--
				found = true
			}
		}
		if !found {
			return true
		}
	}
	return false
}

func bReach(n int, adj [][]bool) [][]bool {
	r := make([][]bool, n)
	for i := range r {
		r[i] = make([]bool, n)
		copy(r[i], adj[i])
	}
	for k := 0; k < n; k++ {
		for i := 0; i < n; i++ {
			for j := 0; j < n; j++ {
				if r[i][k] && r[k][j] {
					r[i][j] = true
				}
			}
		}
	}
	return r
}

func TestGovcBoundedDagGraphs(t *testing.T) {
	Logger.SetOutput(io.Discard)
	defer Logger.SetOutput(log.Writer())
	graphs, sorts, runs := 0, 0, 0
	for n := 1; n <= 4; n++ {
		for mask := 0; mask < 1<<(n*n); mask++ {
			adj := make([][]bool, n)
			for i := range adj {
				adj[i] = make([]bool, n)
				for j := 0; j < n; j++ {
					adj[i][j] = mask&(1<<(i*n+j)) != 0 // i depends on j
				}
			}
			graphs++
			cyc := bCyclic(n, adj)
			build := func(outcome []int, entered *[]int, mu *sync.Mutex, state []int) *Graph {
				g := NewGraph("b")
				g.TickerDuration = 50 * time.Microsecond
				tasks := make([]*Task, n)
				for i := 0; i < n; i++ {
					i := i
					tasks[i] = NewTask(fmt.Sprintf("t%d", i), func(ctx context.Context, opt *getoptions.GetOpt, args []string) error {
						mu.Lock()
						*entered = append(*entered, i)
						for j := 0; j < n; j++ {
							if adj[i][j] && state[j] != 2 {
								state[i] = -1 // entered before a dependency returned nil
							}
						}
						mu.Unlock()
						var err error
						switch outcome[i] {
						case 1:
							err = fmt.Errorf("fail %d", i)
						case 2:
							err = ErrorSkipParents
						}
						mu.Lock()
						if state[i] != -1 {
							if err == nil {
								state[i] = 2
							} else {
								state[i] = 3
							}
						}
						mu.Unlock()
						return err
					})
					g.AddTask(tasks[i])
				}
				for i := 0; i < n; i++ {
					for j := 0; j < n; j++ {
						if adj[i][j] {
							g.TaskDependsOn(tasks[i], tasks[j])
						}
					}
				}
				return g
			}
			// cycle check and topological order
			{
				var entered []int
				g := build(make([]int, n), &entered, &sync.Mutex{}, make([]int, n))
				sorted, err := g.DepthFirstSort()
				sorts++
				if cyc != (err != nil) {
					t.Fatalf("n=%d mask=%d: cyclic=%v but DepthFirstSort error=%v", n, mask, cyc, err)
				}
				if err != nil && !errors.Is(err, ErrorGraphHasCycle) {
					t.Fatalf("n=%d mask=%d: cycle reported with %v", n, mask, err)
				}
				if !cyc {
					pos := map[ID]int{}
					for k, v := range sorted {
						if _, dup := pos[v.ID]; dup {
							t.Fatalf("n=%d mask=%d: vertex %s twice in the sort", n, mask, v.ID)
						}
						pos[v.ID] = k
					}
					if len(pos) != n {
						t.Fatalf("n=%d mask=%d: sort has %d of %d vertices", n, mask, len(pos), n)
					}
					for i := 0; i < n; i++ {
						for j := 0; j < n; j++ {
							if adj[i][j] && pos[ID(fmt.Sprintf("t%d", j))] > pos[ID(fmt.Sprintf("t%d", i))] {
								t.Fatalf("n=%d mask=%d: dependency t%d sorted after t%d", n, mask, j, i)
							}
						}
					}
				}
			}
			if cyc {
				var entered []int
				g := build(make([]int, n), &entered, &sync.Mutex{}, make([]int, n))
				err := g.Run(context.Background(), nil, nil)
				if !errors.Is(err, ErrorGraphHasCycle) || len(entered) != 0 {
					t.Fatalf("n=%d mask=%d: cyclic graph: Run error %v, %d tasks entered", n, mask, err, len(entered))
				}
				continue
			}
			reach := bReach(n, adj)
			outcomes := 1
			if n <= 3 {
				for k := 0; k < n; k++ {
					outcomes *= 3
				}
			}
			for oc := 0; oc < outcomes; oc++ {
				outcome := make([]int, n)
				for k, x := 0, oc; k < n; k++ {
					outcome[k] = x % 3
					x /= 3
				}
				for mode := 0; mode < 3; mode++ {
					var entered []int
					mu := &sync.Mutex{}
					state := make([]int, n)
					g := build(outcome, &entered, mu, state)
					switch mode {
					case 1:
						g.SetMaxParallel(1)
					case 2:
						g.SetSerial()
					}
					res := make(chan error, 1)
					go func() { res <- g.Run(context.Background(), nil, nil) }()
					var err error
					select {
					case err = <-res:
					case <-time.After(20 * time.Second):
						t.Fatalf("n=%d mask=%d outcome=%v mode=%d: Run did not return", n, mask, outcome, mode)
					}
					runs++
					count := make([]int, n)
					for _, i := range entered {
						count[i]++
					}
					anyFail := false
					for i := 0; i < n; i++ {
						if state[i] == -1 {
							t.Fatalf("n=%d mask=%d outcome=%v mode=%d: t%d entered before a dependency returned nil", n, mask, outcome, mode, i)
						}
						if count[i] > 1 {
							t.Fatalf("n=%d mask=%d outcome=%v mode=%d: t%d entered %d times without retries", n, mask, outcome, mode, i, count[i])
						}
						if count[i] == 1 && outcome[i] == 1 {
							anyFail = true
						}
						// a (transitive) dependent of a task that failed or skipped its parents never starts
						for j := 0; j < n; j++ {
							if reach[i][j] && count[j] == 1 && outcome[j] != 0 && count[i] != 0 {
								t.Fatalf("n=%d mask=%d outcome=%v mode=%d: t%d started although its dependency t%d ended with outcome %d", n, mask, outcome, mode, i, j, outcome[j])
							}
						}
					}
					if anyFail != (err != nil) {
						t.Fatalf("n=%d mask=%d outcome=%v mode=%d: a task failed = %v but Run returned %v", n, mask, outcome, mode, anyFail, err)
					}
					if !anyFail {
						// without failure every task whose dependencies all succeeded was started (work conservation at the end of the run)
						for i := 0; i < n; i++ {
							blocked := false
							for j := 0; j < n; j++ {
								if reach[i][j] && outcome[j] == 2 {
									blocked = true
								}
							}
							if !blocked && count[i] != 1 {
								t.Fatalf("n=%d mask=%d outcome=%v mode=%d: t%d never started although nothing it depends on failed or skipped", n, mask, outcome, mode, i)
							}
						}
					}
				}
			}
		}
	}
	fmt.Printf("GOVC-BOUNDED daggraphs: %d graphs on <=4 vertices (self loops included), %d sorts compared with an independent cycle test, %d runs (3 modes; all ok/fail/skip-parents outcomes up to 3 vertices) checked\n", graphs, sorts, runs)
}
