package getoptions
// govc:bounded props=C10,C11,C17 pkg=. run=TestGovcBoundedHelpTree what=HelpCommand tree walk (help command and help option at every node, sibling names as suggestions) and option inheritance over several levels

// BOUNDED STAND-IN (not a proof; labelled bounded in the evidence, never counted as discharged).
// HelpCommand walks the command tree with function arguments (runOnParentAndChildrenCommands) and the inheritance of
// options over more than one level needs a transitive closure: neither is within reach of the contract language of govc.
// This file enumerates every command tree with at most 2 children per node and depth <= 3 (183 shapes), with at most
// one wrapper (UnsetOptions) node, options declared before the commands, and checks the structural clauses that
// C10 / C11 / C17 rely on after HelpCommand has run. It is injected into the package with `go test -overlay`.

import (
	"fmt"
	"reflect"
	"sort"
	"testing"
)

type bshape struct{ kids []*bshape }

func bshapes(depth int) []*bshape {
	out := []*bshape{{}}
	if depth == 0 {
		return out
	}
	sub := bshapes(depth - 1)
	for _, a := range sub {
		out = append(out, &bshape{[]*bshape{a}})
	}
	for _, a := range sub {
		for _, b := range sub {
			out = append(out, &bshape{[]*bshape{a, b}})
		}
	}
	return out
}

func bcount(s *bshape) int {
	n := 1
	for _, k := range s.kids {
		n += bcount(k)
	}
	return n
}

// bbuild declares the commands of shape s under g; node number *idx == wrapper becomes a wrapper command.
func bbuild(g *GetOpt, s *bshape, path string, idx *int, wrapper int) {
	for i, k := range s.kids {
		*idx++
		name := fmt.Sprintf("%sc%d", path, i)
		c := g.NewCommand(name, "")
		if *idx == wrapper {
			c.UnsetOptions()
		}
		bbuild(c, k, name, idx, wrapper)
	}
}

func bcheck(t *testing.T, n *programTree, root *programTree, inherits bool, label string) int {
	checked := 1
	if n.HelpCommandName != "help" {
		t.Fatalf("%s: node %q: HelpCommandName = %q", label, n.Name, n.HelpCommandName)
	}
	hc, ok := n.ChildCommands["help"]
	if !ok {
		t.Fatalf("%s: node %q has no help command", label, n.Name)
	}
	if hc.Parent != n || hc.Name != "help" || hc.HelpCommandName != "help" || hc.CommandFn == nil ||
		reflect.ValueOf(hc.CommandFn).Pointer() != reflect.ValueOf(CommandFn(runHelp)).Pointer() {
		t.Fatalf("%s: node %q: help command wired wrongly (parent/name/fn)", label, n.Name)
	}
	if _, nested := hc.ChildCommands["help"]; nested {
		t.Fatalf("%s: node %q: the help command has a help command of its own", label, n.Name)
	}
	var want []string
	for k := range n.ChildCommands {
		if k != "help" {
			want = append(want, k)
		}
	}
	got := append([]string{}, hc.Suggestions...)
	sort.Strings(want)
	sort.Strings(got)
	if !reflect.DeepEqual(want, got) && !(len(want) == 0 && len(got) == 0) {
		t.Fatalf("%s: node %q: help suggestions %q, sibling commands %q", label, n.Name, got, want)
	}
	if inherits {
		for _, k := range []string{"help", "?", "verbose", "v"} {
			if n.ChildOptions[k] == nil || n.ChildOptions[k] != root.ChildOptions[k] {
				t.Fatalf("%s: node %q does not hold the inherited option %q (same record as the root)", label, n.Name, k)
			}
		}
	}
	if !inherits {
		// at and below a wrapper nothing of the root's options is known (they would be offered by completion and swallowed by the parser)
		for _, k := range []string{"help", "?", "verbose", "v"} {
			if _, ok := n.ChildOptions[k]; ok {
				t.Fatalf("%s: node %q is a wrapper or lies below one but knows the root's option %q", label, n.Name, k)
			}
		}
	}
	for k, c := range n.ChildCommands {
		if k == "help" {
			continue
		}
		if c.Parent != n || c.Level != n.Level+1 {
			t.Fatalf("%s: node %q: child %q has wrong parent/level", label, n.Name, k)
		}
		checked += bcheck(t, c, root, inherits && !c.skipOptionsCopy, label)
	}
	return checked
}

func TestGovcBoundedHelpTree(t *testing.T) {
	shapes := bshapes(3)
	cases, nodes := 0, 0
	for si, s := range shapes {
		n := bcount(s)
		for wrapper := 0; wrapper < n; wrapper++ { // 0 = no wrapper (the root is never one)
			opt := New()
			opt.Bool("verbose", false, opt.Alias("v"))
			idx := 0
			bbuild(opt, s, "", &idx, wrapper)
			opt.HelpCommand("help", opt.Alias("?"))
			label := fmt.Sprintf("shape %d wrapper %d", si, wrapper)
			nodes += bcheck(t, opt.programTree, opt.programTree, true, label)
			cases++
		}
	}
	fmt.Printf("GOVC-BOUNDED helptree: %d trees (<=2 children per node, depth <=3, <=1 wrapper), %d nodes checked\n", cases, nodes)
}
