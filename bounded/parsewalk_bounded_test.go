package getoptions
// govc:bounded props=C03,C04,C06,C19,C20 pkg=. run=TestGovcBoundedParseWalk what=whole-run composition of the per-iteration clauses of the argument walk (the induction over the token sequence is not mechanised): conservation of remaining arguments, terminator tail, untouched options, fail-nil, determinism on all short command lines

// BOUNDED STAND-IN (not a proof; labelled bounded in the evidence, never counted as discharged).
// All command lines of up to 3 tokens (quick) / 4 tokens (thorough, GOVC_TIER=thorough) over a 14-token alphabet, in 3 modes x 3 unknown-modes x require-order on/off,
// against one fixed definition; oracle-free checks taken from the property statements.

import (
	"fmt"
	"io"
	"os"
	"reflect"
	"testing"
)

var bAlphabet = []string{"--flag", "--str", "--str=v", "-f", "x", "cmd", "--", "-", "--unk", "-fx", "--sl", "1", "--opt", "--sub"}

type bDef struct {
	opt                  *GetOpt
	flag, other          *bool
	str, optional, extra *string
	sl                   *[]int
}

func bDefine(mode Mode, um UnknownMode, ro bool) *bDef {
	d := &bDef{}
	o := New()
	o.SetMode(mode)
	o.SetUnknownMode(um)
	if ro {
		o.SetRequireOrder()
	}
	d.flag = o.Bool("flag", false, o.Alias("f"))
	d.other = o.Bool("other", false)
	d.str = o.String("str", "dflt")
	d.optional = o.StringOptional("opt", "odflt")
	d.extra = o.String("extra", "edflt")
	d.sl = o.IntSlice("sl", 1, 2)
	c := o.NewCommand("cmd", "")
	c.Bool("sub", false)
	d.opt = o
	return d
}

func bSubsequence(sub, full []string) bool {
	i := 0
	for _, t := range full {
		if i < len(sub) && sub[i] == t {
			i++
		}
	}
	return i == len(sub)
}

func TestGovcBoundedParseWalk(t *testing.T) {
	Writer = io.Discard
	lines, parses := 0, 0
	var gen func(prefix []string, n int)
	check := func(args []string) {
		lines++
		for _, mode := range []Mode{Normal, Bundling, SingleDash} {
			for _, um := range []UnknownMode{Fail, Warn, Pass} {
				for _, ro := range []bool{false, true} {
					label := fmt.Sprintf("args=%q mode=%d unknown=%d requireOrder=%v", args, mode, um, ro)
					var rem []string
					var err error
					var d *bDef
					func() {
						defer func() {
							if r := recover(); r != nil {
								t.Fatalf("%s: panic %v", label, r)
							}
						}()
						d = bDefine(mode, um, ro)
						rem, err = d.opt.Parse(append([]string{}, args...))
					}()
					parses++
					if err != nil {
						if rem != nil {
							t.Fatalf("%s: error %v with non-nil remaining %q", label, err, rem)
						}
						continue
					}
					if !bSubsequence(rem, args) {
						t.Fatalf("%s: remaining %q is not a subsequence of the arguments (something invented, duplicated or reordered)", label, rem)
					}
					// terminator: when the first "--" is not the value of a value-taking option just before it, the tail is returned verbatim
					for k, tok := range args {
						if tok != "--" {
							continue
						}
						prevTakes := k > 0 && (args[k-1] == "--str" || args[k-1] == "--sl" || args[k-1] == "--extra")
						if !prevTakes {
							tail := args[k+1:]
							if len(rem) < len(tail) || !reflect.DeepEqual(append([]string{}, rem[len(rem)-len(tail):]...), append([]string{}, tail...)) {
								t.Fatalf("%s: the tokens after the first \"--\" are not the tail of remaining %q", label, rem)
							}
						}
						break
					}
					// options never mentioned keep their default and are not called
					if *d.other || d.opt.Called("other") || *d.extra != "edflt" || d.opt.Called("extra") {
						t.Fatalf("%s: an option that was not given changed (other=%v extra=%q)", label, *d.other, *d.extra)
					}
					// determinism: a fresh definition gives the same answer
					d2 := bDefine(mode, um, ro)
					rem2, err2 := d2.opt.Parse(append([]string{}, args...))
					if (err2 != nil) != (err != nil) || !reflect.DeepEqual(rem, rem2) || *d.flag != *d2.flag || *d.str != *d2.str || *d.optional != *d2.optional || !reflect.DeepEqual(*d.sl, *d2.sl) {
						t.Fatalf("%s: two runs differ", label)
					}
				}
			}
		}
	}
	gen = func(prefix []string, n int) {
		check(prefix)
		if n == 0 {
			return
		}
		for _, tok := range bAlphabet {
			gen(append(append([]string{}, prefix...), tok), n-1)
		}
	}
	bound := 3
	if os.Getenv("GOVC_TIER") == "thorough" {
		bound = 4
	}
	gen(nil, bound)
	fmt.Printf("GOVC-BOUNDED parsewalk: %d command lines (<=%d tokens over %d tokens) x 3 modes x 3 unknown modes x require-order on/off = %d parses checked\n", lines, bound, len(bAlphabet), parses)
}
