package main

// Bounded stand-ins (labelled bounded, never counted as discharged): Go tests under /verif/bounded that exercise functions
// the contract language cannot reach, injected into the package with `go test -overlay`. A file declares itself with
//   // govc:bounded props=C10,C11 pkg=. run=TestName what=free text

import (
	"bytes"
	"context"
	"encoding/json"
	"os"
	"os/exec"
	"path/filepath"
	"regexp"
	"strings"
	"time"
)

type boundedResult struct {
	File, What, Run, Summary, Output string
	Failed                           bool
	Secs                             float64
}

var boundedHead = regexp.MustCompile(`govc:bounded props=([A-Z0-9,]+) pkg=(\S+) run=(\S+) what=(.*)`)

func runBoundedStandIns(verif, repo, prop, tier string) []boundedResult {
	files, _ := filepath.Glob(filepath.Join(verif, "bounded", "*_test.go"))
	var out []boundedResult
	for _, f := range files {
		data, err := os.ReadFile(f)
		if err != nil {
			continue
		}
		m := boundedHead.FindStringSubmatch(string(data))
		if m == nil || !hasProp(strings.Split(m[1], ","), prop) {
			continue
		}
		pkgDir := filepath.Join(repo, m[2])
		work, _ := os.MkdirTemp("", "govc-bounded")
		ov := map[string]map[string]string{"Replace": {filepath.Join(pkgDir, "zz_govc_bounded_test.go"): f}}
		oj, _ := json.Marshal(ov)
		ovPath := filepath.Join(work, "overlay.json")
		os.WriteFile(ovPath, oj, 0o644)
		ctx, cancel := context.WithTimeout(context.Background(), 300*time.Second)
		cmd := exec.CommandContext(ctx, "bash", "-c", "ulimit -v 8000000; exec go test -overlay "+ovPath+" -vet=off -count=1 -timeout 240s -run '^"+m[3]+"$' -v .")
		cmd.Dir = pkgDir
		cmd.Env = append(os.Environ(), "GOFLAGS=-mod=mod", "GOPROXY=off", "GOSUMDB=off", "GOTOOLCHAIN=local", "GOVC_TIER="+tier)
		var buf bytes.Buffer
		cmd.Stdout, cmd.Stderr = &buf, &buf
		t0 := time.Now()
		err = cmd.Run()
		cancel()
		os.RemoveAll(work)
		r := boundedResult{File: f, What: strings.TrimSpace(m[4]), Run: m[3], Secs: time.Since(t0).Seconds(), Output: truncate(buf.String(), 4000)}
		for _, ln := range strings.Split(buf.String(), "\n") {
			if strings.HasPrefix(ln, "GOVC-BOUNDED ") {
				r.Summary = strings.TrimPrefix(ln, "GOVC-BOUNDED ")
			}
		}
		if err != nil || r.Summary == "" || !strings.Contains(buf.String(), "\nok") && !strings.Contains(buf.String(), "PASS") {
			r.Failed = true
		}
		out = append(out, r)
	}
	return out
}
