package main

// Verdict cache: an obligation whose complete solver query (assumptions, goal, definitions) is byte-identical to one
// that was discharged (unsat) before is not sent to a solver again. The verification conditions themselves are
// regenerated from /repo's working tree on every run; only identical solver queries are reused. Nothing but
// "discharged" verdicts is stored; the thorough tier does not read the cache.

import (
	"bufio"
	"crypto/sha256"
	"encoding/hex"
	"os"
	"path/filepath"
	"sort"
	"strings"
	"sync"
)

type verdictCache struct {
	path  string
	known map[string]bool
	fresh []string
	mu    sync.Mutex
	salt  string
}

const engineCacheVersion = "govc-cache-1 z3-4.8.12 z3-5.1.0 cvc5-1.0"

func (e *Engine) openCache(dir string) *verdictCache {
	c := &verdictCache{path: filepath.Join(dir, "verdicts.txt"), known: map[string]bool{}}
	// everything a query text depends on besides its own commands: prelude declarations, recursive spec functions, axioms
	h := sha256.New()
	h.Write([]byte(engineCacheVersion))
	for _, d := range preludeDecls {
		h.Write([]byte(d.decl))
	}
	var names []string
	for n := range e.specFuncs {
		names = append(names, n)
	}
	sort.Strings(names)
	for _, n := range names {
		sf := e.specFuncs[n]
		h.Write([]byte(sf.Name + "|" + sf.Ret + "|" + sf.Body.String()))
		for _, p := range sf.Params {
			h.Write([]byte(p.Name + ":" + p.Type))
		}
	}
	for _, a := range e.axioms {
		h.Write([]byte(a.Name + "|" + a.Expr.String()))
	}
	c.salt = hex.EncodeToString(h.Sum(nil))
	if f, err := os.Open(c.path); err == nil {
		sc := bufio.NewScanner(f)
		for sc.Scan() {
			if ln := strings.TrimSpace(sc.Text()); len(ln) >= 64 && len(ln) <= 66 {
				c.known[ln] = true
			}
		}
		f.Close()
	}
	return c
}

func (c *verdictCache) key(o *Obligation) string {
	h := sha256.New()
	h.Write([]byte(c.salt))
	for _, cm := range o.Cmds {
		h.Write([]byte(cm))
		h.Write([]byte{'\n'})
	}
	h.Write([]byte("GOAL " + o.Goal))
	return hex.EncodeToString(h.Sum(nil))
}

func (c *verdictCache) note(k string) {
	c.mu.Lock()
	if !c.known[k] {
		c.known[k] = true
		c.fresh = append(c.fresh, k)
	}
	c.mu.Unlock()
}

func (c *verdictCache) flush() {
	if len(c.fresh) == 0 {
		return
	}
	os.MkdirAll(filepath.Dir(c.path), 0o755)
	f, err := os.OpenFile(c.path, os.O_APPEND|os.O_CREATE|os.O_WRONLY, 0o644)
	if err != nil {
		return
	}
	defer f.Close()
	f.WriteString(strings.Join(c.fresh, "\n") + "\n")
	c.fresh = nil
}

// keyOf hashes an arbitrary query (commands + goal) under a tag.
func (c *verdictCache) keyOf(tag string, cmds []string, goal string) string {
	h := sha256.New()
	h.Write([]byte(c.salt))
	h.Write([]byte(tag))
	for _, cm := range cmds {
		h.Write([]byte(cm))
		h.Write([]byte{'\n'})
	}
	h.Write([]byte("GOAL " + goal))
	return hex.EncodeToString(h.Sum(nil))
}
