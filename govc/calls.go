package main

// Calls: builtins, contracted callees (modular), trusted library specifications, unknown callees.

import (
	"fmt"
	"go/types"
	"strings"

	"golang.org/x/tools/go/ssa"
)

func (s *State) evalArgs(c *ssa.CallCommon) []Val {
	var args []Val
	if c.IsInvoke() {
		args = append(args, s.valueOf(c.Value))
	}
	for _, a := range c.Args {
		args = append(args, s.valueOf(a))
	}
	return args
}

func (s *State) execCall(c *ssa.CallCommon, instr ssa.Value, where string) Val {
	return s.execCallWithArgs(c, instr, s.evalArgs(c), where)
}

func resultType(c *ssa.CallCommon) types.Type {
	sig := c.Signature()
	switch sig.Results().Len() {
	case 0:
		return nil
	case 1:
		return sig.Results().At(0).Type()
	}
	return sig.Results()
}

func (s *State) freshResult(c *ssa.CallCommon, hint string) Val {
	rt := resultType(c)
	if rt == nil {
		return Val{}
	}
	return s.freshVal(hint, rt)
}

func (s *State) execCallWithArgs(c *ssa.CallCommon, instr ssa.Value, args []Val, where string) Val {
	if b, ok := c.Value.(*ssa.Builtin); ok {
		return s.execBuiltin(b, c, args, where)
	}
	if c.IsInvoke() {
		return s.execInvoke(c, args, where)
	}
	callee := c.StaticCallee()
	var binds []Val
	if callee == nil {
		fv := s.valueOf(c.Value)
		if fv.Fn != nil {
			callee = fv.Fn
			binds = fv.Binds
		}
	} else if mc, ok := c.Value.(*ssa.MakeClosure); ok {
		binds = s.valueOf(mc).Binds
	}
	if callee != nil {
		s.checkAtCalls(callee, args, where)
		key := s.eng.fnKey(callee)
		if spec, ok := s.eng.specs[key]; ok {
			return s.callContract(spec, callee, c, args, binds, where)
		}
		if ls := libSpecFor(callee); ls != nil {
			return ls.fn(s, c, args, where)
		}
		if callee.Pkg != nil && s.eng.ssaPkgs[callee.Pkg.Pkg.Name()] == callee.Pkg {
			// function of the repository without a contract: anything may happen
			s.coll.notes = append(s.coll.notes, fmt.Sprintf("%s calls %s which has no contract: all heaps havocked", s.eng.fnKey(s.fn), key))
			s.checkFrameAll(where, "call of "+key+" (no contract)")
			s.havocAll()
			// local variables the closure captured (kept as cells because it is normally verified in place) may have changed too
			for _, b := range binds {
				if b.Loc != nil && b.Loc.Cell != nil {
					s.cells[b.Loc.Cell] = s.freshVal("captured:"+b.Loc.Cell.Comment, derefType(b.Loc.Cell.Type()))
				}
			}
			s.bumpAlloc()
			return s.freshResult(c, "ret:"+callee.Name())
		}
		// external library function without a specification: opaque and effect-free on program-visible state
		s.eng.assumptionsUsed["external function "+callee.String()+" is treated as opaque and effect-free on the program's heap"] = true
		s.bumpAllocTyped(resultTags(c), false)
		return s.freshResult(c, "ext:"+callee.Name())
	}
	// the exit hook (os.Exit behind a package variable): recorded as a ghost event, the call returns in the model
	if fvx := s.valueOf(c.Value); len(fvx.Terms) == 1 && fvx.Terms[0] == sym("g:getoptions.exitFn") {
		if _, ok := s.eng.ghostDecls["$exits"]; ok {
			cur := s.ghostGet("$exits", tInt)
			s.ghost["$exits"] = mkInt(app("+", cur.Terms[0], "1"))
			s.ghostGet("$exitcode", tInt)
			s.ghost["$exitcode"] = mkInt(args[0].Terms[0])
		}
		s.eng.assumptionsUsed["the exit hook exitFn is modelled as a ghost event ($exits, $exitcode); in production it is os.Exit and does not return"] = true
		return Val{}
	}
	// dynamic call through a function value
	if ft := s.eng.funcTypeSpec(c.Value.Type()); ft != nil {
		return s.callContract(ft, nil, c, args, nil, where)
	}
	fv := s.valueOf(c.Value)
	s.oblige("safety", "nil-func-call", []string{"C19"}, not(eq(fv.Terms[0], "0")), where, "")
	s.coll.notes = append(s.coll.notes, fmt.Sprintf("%s: dynamic call at %s without function-type contract: all heaps havocked", s.eng.fnKey(s.fn), where))
	s.checkFrameAll(where, "dynamic call")
	s.havocAll()
	s.bumpAlloc()
	return s.freshResult(c, "dyn")
}

func (s *State) bumpAlloc() { s.bumpAllocTyped(nil, true) }

// bumpAllocTyped advances the allocation frontier past the objects a callee (or loop) may have created.
// Unless unknown, every object in the gap has one of the allowed dynamic types (or is hidden garbage).
func (s *State) bumpAllocTyped(allowed []string, unknown bool) {
	old := s.alloc
	na := s.fresh("alloc", sInt)
	s.assume(app(">=", na, old))
	s.alloc = na
	if unknown {
		s.allocUnknown = true
		return
	}
	s.noteAllocTags(allowed...)
	// the objects created in this gap have one of the declared dynamic types (precise per gap; the per-function summary
	// of emitAllocSummary is the union over all gaps)
	alts := []string{eq("(rtype r!g)", strLit("$hidden")), eq("(rtype r!g)", strLit("$error")), eq("(rtype r!g)", strLit("$iface")), eq("(rtype r!g)", strLit("$closure"))}
	seen := map[string]bool{}
	for _, t := range allowed {
		if t != "" && !seen[t] {
			seen[t] = true
			alts = append(alts, eq("(rtype r!g)", strLit(t)))
		}
	}
	s.assume(fmt.Sprintf("(forall ((r!g Int)) (! (=> (and (<= %s r!g) (< r!g %s)) %s) :pattern ((rtype r!g))))", old, na, or(alts...)))
}

func (s *State) noteAllocTags(tags ...string) {
	for _, t := range tags {
		if t == "" || s.allocTags[t] {
			continue
		}
		// copy on write: the map is shared between forked states
		n := make(map[string]bool, len(s.allocTags)+1)
		for k := range s.allocTags {
			n[k] = true
		}
		n[t] = true
		s.allocTags = n
	}
}

// emitAllocSummary states once (per allocation frontier) which dynamic types the objects created since function
// entry can have; typed quantifiers over references need it to exclude objects of other types.
func (s *State) emitAllocSummary() {
	if s.allocUnknown || s.entry == nil || s.summaryFor == s.alloc {
		return
	}
	s.summaryFor = s.alloc
	alts := []string{eq("(rtype r!g)", strLit("$hidden")), eq("(rtype r!g)", strLit("$error")), eq("(rtype r!g)", strLit("$iface")), eq("(rtype r!g)", strLit("$closure"))}
	var ts []string
	for t := range s.allocTags {
		ts = append(ts, t)
	}
	sortStrings(ts)
	for _, t := range ts {
		alts = append(alts, eq("(rtype r!g)", strLit(t)))
	}
	s.assume(fmt.Sprintf("(forall ((r!g Int)) (! (=> (and (<= %s r!g) (< r!g %s)) %s) :pattern ((rtype r!g))))", s.entry.Alloc, s.alloc, or(alts...)))
}

// resultTags: dynamic types of the objects a call may hand back through its results.
func resultTags(c *ssa.CallCommon) []string {
	var out []string
	sig := c.Signature()
	for i := 0; i < sig.Results().Len(); i++ {
		for _, l := range shapeOf(sig.Results().At(i).Type()) {
			if l.Tag != "" {
				out = append(out, l.Tag)
			}
		}
		// slices/strings/arrays returned by value carry no references of their own here
	}
	return out
}

func (s *State) checkFrameAll(where, what string) {
	check := func(fr *frameSpec, scope string) {
		if fr == nil || fr.Unrestricted {
			return
		}
		s.oblige("frame", "havoc-all@"+scope, s.structProps(), "false", where, what+" inside a scope with a modifies clause")
	}
	check(s.fnFrame, "func")
	for _, lf := range s.loops {
		check(lf.Frame, "loop:"+lf.L.Name)
	}
}

func (s *State) checkFrameWhole(base, where, what string) {
	for _, lf := range s.loops {
		if lf.L.MapRange != nil && strings.HasPrefix(base, "mapdom<") {
			if it, ok := s.iters[lf.L.MapRange]; ok && base == "mapdom<"+typeKey(it.MapT)+">" {
				s.oblige("safety", "ranged-map-unmodified@"+lf.L.Name, append([]string{"C19"}, s.defaultProps()...), "false", where, what+" may write the map being ranged over")
			}
		}
	}
	check := func(fr *frameSpec, scope string) {
		if fr == nil || fr.Unrestricted || fr.Whole[base] {
			return
		}
		s.oblige("frame", "whole:"+base+"@"+scope, s.structProps(), "false", where, what+" may modify "+base+" on any object; scope allows only: "+fr.Desc)
	}
	check(s.fnFrame, "func")
	for _, lf := range s.loops {
		check(lf.Frame, "loop:"+lf.L.Name)
	}
}

// callContract applies the callee's contract at a call site.
func (s *State) callContract(spec *FuncSpec, callee *ssa.Function, c *ssa.CallCommon, args, binds []Val, where string) Val {
	env := &SpecEnv{st: s, vars: map[string]Val{}}
	name := spec.Name
	var sig *types.Signature
	if callee != nil {
		sig = callee.Signature
		if callee.Pkg != nil {
			env.pkg = callee.Pkg.Pkg
		} else if callee.Parent() != nil && callee.Parent().Pkg != nil {
			env.pkg = callee.Parent().Pkg.Pkg
		}
		for i, p := range callee.Params {
			if i < len(args) {
				env.vars[p.Name()] = args[i]
			}
		}
		for i, fv := range callee.FreeVars {
			if i < len(binds) {
				env.vars["&"+fv.Name()] = binds[i]
			}
		}
	} else {
		sig = spec.ftSig
		env.pkg = s.eng.typesPkgs[spec.Pkg]
		for i := 0; i < sig.Params().Len() && i < len(args); i++ {
			n := sig.Params().At(i).Name()
			if i < len(spec.ftParams) {
				n = spec.ftParams[i]
			}
			env.vars[n] = args[i]
		}
		fv := s.valueOf(c.Value)
		env.vars["$fn"] = fv
		s.oblige("safety", "nil-func-call", []string{"C19"}, not(eq(fv.Terms[0], "0")), where, "")
	}
	if callee != nil && callee == s.fn {
		s.eng.assumptionsUsed["termination of the recursion in "+s.eng.fnKey(s.fn)+" is not proved (no measure for recursive calls); partial correctness only"] = true
	}
	pre := s.snapshot()
	env.old = pre
	// preconditions
	for _, cl := range spec.Requires {
		cl := cl
		err := safeSpec(func() {
			s.oblige("call-pre", name+"/"+cl.Name, unionProps(cl.Props, s.defaultProps()), env.evalBool(cl.Expr), where, cl.Src)
		})
		if err != nil {
			s.coll.specErr(s.eng, s.fn, cl, err)
		}
	}
	// the callee may panic in the states named by its maypanic clauses: the caller must exclude them
	// (or allow a panic itself under a condition implied by the callee's)
	for _, cl := range spec.MayPanic {
		cl := cl
		err := safeSpec(func() {
			cond := env.evalBool(cl.Expr)
			allowed := "false"
			if s.spec != nil && len(s.spec.MayPanic) > 0 {
				cenv := s.specEnv().at(s.entry)
				cenv.vars = s.entryVars
				cenv.fn = nil
				var alts []string
				for _, mc := range s.spec.MayPanic {
					alts = append(alts, cenv.evalBool(mc.Expr))
				}
				allowed = or(alts...)
			}
			s.oblige("safety", "callee-panic:"+name+"/"+cl.Name, unionProps([]string{"C19"}, unionProps(cl.Props, s.defaultProps())), or(not(cond), allowed), where, cl.Src)
		})
		if err != nil {
			s.coll.specErr(s.eng, s.fn, cl, err)
		}
	}
	// frame
	if !spec.HasMod {
		if !spec.Callback {
			s.checkFrameAll(where, "call of "+name+" (contract without modifies)")
		} else {
			s.eng.assumptionsUsed["effects of user callbacks ("+name+") are not attributed to the calling library function's frame"] = true
		}
		s.havocAll()
	} else {
		for _, it := range s.evalFrameItems(spec.Modifies, env) {
			if strings.HasPrefix(it.ghost, "$spawns_") {
				s.ghostGet(it.ghost, tInt)
				s.ghost[it.ghost] = s.freshVal("ghost:"+it.ghost, tInt)
				continue
			}
			if ct, isChan := s.eng.chanGhostT[it.ghost]; it.ghost != "" && isChan {
				s.ghostGet(it.ghost, ct)
				s.ghost[it.ghost] = s.freshVal("ghost:"+it.ghost, ct)
				continue
			}
			if it.ghost != "" {
				t := env.resolveTypeIn(s.eng.ghostDecls[it.ghost], s.eng.ghostPkg[it.ghost])
				s.ghostGet(it.ghost, t)
				s.ghost[it.ghost] = s.freshVal("ghost:"+it.ghost, t)
				continue
			}
			for _, b := range it.bases {
				if it.whole {
					s.checkFrameWhole(b.base, where, "call of "+name)
					for _, hl := range b.leaves {
						s.heapHavoc(hl)
					}
				} else {
					s.checkFrameWrite(b.base, it.ref, where)
					for _, hl := range b.leaves {
						cur := s.heapGet(hl)
						nv := s.fresh("mod", hl.Elem)
						if hl.Ref {
							// the new value is an allocated reference (bounded after the allocation bump below)
							s.pendingRefs = append(s.pendingRefs, nv)
						}
						s.heapSet(hl, ite(eq(it.ref, "0"), cur, store(cur, it.ref, nv)))
					}
				}
			}
		}
	}
	{
		// a contracted callee declares what it may allocate (fresh results included) with "allocates"
		var allowed []string
		for _, tt := range spec.AllocTypes {
			tt := tt
			_ = safeSpec(func() { allowed = append(allowed, typeKey(env.resolveType(tt))) })
		}
		s.bumpAllocTyped(allowed, !spec.HasMod)
	}
	for _, r := range s.pendingRefs {
		s.assume(and(app("<=", "0", r), app("<", r, s.alloc)))
	}
	s.pendingRefs = nil
	// results
	var res Val
	var parts []Val
	n := sig.Results().Len()
	for i := 0; i < n; i++ {
		rv := s.freshVal(fmt.Sprintf("ret:%s#%d", shortName(name), i), sig.Results().At(i).Type())
		parts = append(parts, rv)
		env.vars[fmt.Sprintf("result%d", i)] = rv
		if n == 1 {
			env.vars["result"] = rv
		}
		if rn := sig.Results().At(i).Name(); rn != "" && rn != "_" {
			env.vars[rn] = rv
		}
	}
	switch n {
	case 0:
	case 1:
		res = parts[0]
	default:
		res = Val{T: sig.Results(), Elems: parts}
		for _, p := range parts {
			res.Terms = append(res.Terms, p.Terms...)
		}
	}
	// in-place slice parameters: the caller's variable holds a rearranged slice afterwards
	type inpl struct {
		origin *Loc
		nv     Val
	}
	var inpls []inpl
	if callee != nil {
		for _, pn := range spec.Inplace {
			for i, p := range callee.Params {
				if p.Name() != pn || i >= len(args) {
					continue
				}
				a := args[i]
				if !isSlice(a.T) || a.Origin == nil {
					s.unsupported("in-place operation %s on a slice that is not held in a variable at %s", name, where)
				}
				nv := Val{T: a.T, Terms: []string{a.Terms[0], a.Terms[1]}}
				for li, l := range shapeOf(a.T)[2:] {
					_ = li
					nv.Terms = append(nv.Terms, s.fresh("inplace", l.Sort))
				}
				env.vars["final:"+pn] = nv
				inpls = append(inpls, inpl{a.Origin, nv})
			}
		}
	}
	defer func() {
		for _, ip := range inpls {
			s.storeTo(ip.origin, ip.nv, where)
		}
	}()
	// postconditions (and naming clauses: "defines" introduces a name for the callee's result, assumed only)
	for _, cl := range append(append([]*Clause(nil), spec.Ensures...), spec.Defines...) {
		cl := cl
		err := safeSpec(func() { s.assume(env.evalBool(cl.Expr)) })
		if err != nil {
			s.coll.specErr(s.eng, s.fn, cl, err)
		}
	}
	for _, cl := range spec.Defines {
		s.eng.assumptionsUsed["naming clause (assumed, not checked) on "+name+": "+cl.Src] = true
	}
	return res
}

func shortName(n string) string {
	if k := strings.LastIndex(n, "."); k >= 0 {
		return n[k+1:]
	}
	return n
}

func unionProps(a, b []string) []string {
	seen := map[string]bool{}
	var out []string
	for _, p := range append(append([]string(nil), a...), b...) {
		if !seen[p] {
			seen[p] = true
			out = append(out, p)
		}
	}
	return out
}

// funcTypeSpec finds a contract attached to a named function type ("type ModifyFn").
func (e *Engine) funcTypeSpec(t types.Type) *FuncSpec {
	n, ok := t.(*types.Named)
	if !ok {
		// unnamed function types: a contract may be attached to the signature text in any package ("type func(string) string")
		if sig, isSig := t.Underlying().(*types.Signature); isSig {
			key := "type " + types.TypeString(sig, func(p *types.Package) string { return p.Name() })
			for pn := range e.typesPkgs {
				if spec, ok := e.specs[pn+"."+key]; ok {
					if spec.ftSig == nil {
						spec.ftSig = sig
					}
					return spec
				}
			}
		}
		return nil
	}
	key := n.Obj().Pkg().Name() + ".type " + n.Obj().Name()
	spec, ok := e.specs[key]
	if !ok {
		return nil
	}
	if spec.ftSig == nil {
		spec.ftSig = n.Underlying().(*types.Signature)
	}
	return spec
}

// maxAllocBytes is the largest allocation the Go runtime accepts on linux/amd64 (1 << heapAddrBits); makeslice panics above it.
const maxAllocBytes = "281474976710656"

var stdSizes = types.SizesFor("gc", "amd64")

func sizeofType(t types.Type) int64 {
	n := stdSizes.Sizeof(t)
	if n < 1 {
		n = 1
	}
	return n
}

// assumeObjectSize: an object that exists fits in the address space, so its element count times its element size is at most maxAllocBytes.
func (s *State) assumeObjectSize(n string, elem int64) {
	s.eng.assumptionsUsed["an existing slice or map with elements of size e has at most 2^48/e elements (linux/amd64 allocation limit)"] = true
	s.assume(app("<=", app("*", n, fmt.Sprint(elem)), maxAllocBytes))
}

func (s *State) execBuiltin(b *ssa.Builtin, c *ssa.CallCommon, args []Val, where string) Val {
	switch b.Name() {
	case "len":
		x := args[0]
		switch u := x.T.Underlying().(type) {
		case *types.Slice:
			s.assumeObjectSize(x.Terms[0], sizeofType(u.Elem()))
			return mkInt(x.Terms[0])
		case *types.Map:
			n := ite(eq(x.Terms[0], "0"), "0", s.mapCardIn(nil, u, x.Terms[0]))
			s.assumeObjectSize(n, sizeofType(u.Key())+sizeofType(u.Elem()))
			return mkInt(n)
		case *types.Basic:
			return mkInt(app("str.len", x.Terms[0]))
		case *types.Array:
			return mkInt(fmt.Sprint(u.Len()))
		}
		v := s.freshVal("len", tInt)
		s.assume(app("<=", "0", v.Terms[0]))
		return v
	case "cap":
		v := s.freshVal("cap", tInt)
		if isSlice(args[0].T) {
			s.assume(app("<=", args[0].Terms[0], v.Terms[0]))
		}
		return v
	case "append":
		return s.execAppend(c, args, where)
	case "delete":
		mt := args[0].T.Underlying().(*types.Map)
		d, cd, _ := s.mapHeaps(mt)
		ref, key := args[0].Terms[0], args[1].Terms[0]
		for _, hb := range mapHeapBases(mt) {
			s.checkFrameWrite(hb.base, ref, where)
		}
		dh := s.heapGet(d)
		had := sel(sel(dh, ref), key)
		ch := s.heapGet(cd)
		s.heapSet(cd, store(ch, ref, ite(had, app("-", sel(ch, ref), "1"), sel(ch, ref))))
		s.heapSet(d, store(dh, ref, store(sel(dh, ref), key, "false")))
		return Val{}
	case "print", "println", "close":
		return Val{}
	case "copy":
		s.unsupported("builtin copy at %s", where)
	case "recover":
		return s.freshResult(c, "recover")
	case "ssa:wrapnilchk":
		s.oblige("safety", "nil-deref", []string{"C19"}, not(eq(args[0].Terms[0], "0")), where, "")
		return args[0]
	case "ssa:deferstack":
		return Val{T: c.Signature().Results().At(0).Type(), Terms: []string{"0"}}
	case "min", "max":
		a, b2 := args[0].Terms[0], args[1].Terms[0]
		if b.Name() == "min" {
			return Val{T: args[0].T, Terms: []string{ite(app("<=", a, b2), a, b2)}}
		}
		return Val{T: args[0].T, Terms: []string{ite(app(">=", a, b2), a, b2)}}
	}
	s.unsupported("builtin %s at %s", b.Name(), where)
	return Val{}
}

func (s *State) execAppend(c *ssa.CallCommon, args []Val, where string) Val {
	x, y := args[0], args[1]
	rt := c.Signature().Results().At(0).Type()
	sh := shapeOf(rt)
	out := Val{T: rt}
	if isString(y.T) {
		s.unsupported("append(bytes, string...) at %s", where)
	}
	if x.Shared {
		// slices are values in this encoding; appending to a slice that was cut from another one may overwrite that one's
		// elements through the shared backing array - outside the model, refused rather than verified wrongly
		s.unsupported("append to a re-sliced slice at %s: it may overwrite elements of the slice it was cut from (backing-array aliasing is not modelled)", where)
	}
	n := app("+", x.Terms[0], y.Terms[0])
	out.Terms = []string{s.define("len", sInt, n), and(x.Terms[1], eq(y.Terms[0], "0"))}
	if cn := constIndexStr(y.Terms[0]); cn >= 0 && cn == len(y.Elems) && cn <= 8 {
		// statically known elements: chain of stores
		for li := range x.Terms[2:] {
			arr := x.Terms[2+li]
			for k, ev := range y.Elems {
				idx := x.Terms[0]
				if k > 0 {
					idx = app("+", x.Terms[0], fmt.Sprint(k))
				}
				arr = store(arr, idx, ev.Terms[li])
			}
			na := s.define("app", sh[2+li].Sort, arr)
			out.Terms = append(out.Terms, na)
			// redundant lemma with a trigger on the OLD array: membership facts about the old contents carry over to the new slice
			s.eng.counter++
			k := sym(fmt.Sprintf("k?%d", s.eng.counter))
			s.assume(fmt.Sprintf("(forall ((%s Int)) (! (=> (and (<= 0 %s) (< %s %s)) (= (select %s %s) (select %s %s))) :pattern ((select %s %s))))",
				k, k, k, x.Terms[0], na, k, x.Terms[2+li], k, x.Terms[2+li], k))
		}
		return out
	}
	// general case: fresh arrays constrained pointwise
	for li := range x.Terms[2:] {
		na := s.fresh("app", sh[2+li].Sort)
		s.eng.counter++
		k := sym(fmt.Sprintf("k?%d", s.eng.counter))
		s.assume(fmt.Sprintf("(forall ((%s Int)) (! (=> (and (<= 0 %s) (< %s %s)) (= (select %s %s) (select %s %s))) :pattern ((select %s %s)) :pattern ((select %s %s))))",
			k, k, k, x.Terms[0], na, k, x.Terms[2+li], k, na, k, x.Terms[2+li], k))
		s.eng.counter++
		k2 := sym(fmt.Sprintf("k?%d", s.eng.counter))
		s.assume(fmt.Sprintf("(forall ((%s Int)) (! (=> (and (<= %s %s) (< %s %s)) (= (select %s %s) (select %s (- %s %s)))) :pattern ((select %s %s))))",
			k2, x.Terms[0], k2, k2, out.Terms[0], na, k2, y.Terms[2+li], k2, x.Terms[0], na, k2))
		out.Terms = append(out.Terms, na)
	}
	return out
}

func (s *State) execInvoke(c *ssa.CallCommon, args []Val, where string) Val {
	recv := args[0]
	m := c.Method
	full := m.FullName()
	switch {
	case m.Name() == "Error" && len(args) == 1:
		s.oblige("safety", "nil-deref", []string{"C19"}, not(eq(recv.Terms[0], "0")), where, "")
		return mkStr(app("err_msg", recv.Terms[0]))
	case strings.HasSuffix(full, "context.Context).Done"):
		return Val{T: c.Signature().Results().At(0).Type(), Terms: []string{app("ctx_done", recv.Terms[0])}}
	case strings.HasSuffix(full, "context.Context).Value"), strings.HasSuffix(full, "context.Context).Err"):
		s.bumpAlloc()
		return s.freshResult(c, "ctx")
	}
	s.eng.assumptionsUsed["interface method "+full+" is treated as opaque and effect-free on the program's heap"] = true
	s.bumpAllocTyped(resultTags(c), false)
	return s.freshResult(c, "invoke:"+m.Name())
}

func libInvokePure(c *ssa.CallCommon) bool { return true }

// checkAtCalls asserts the enclosing function's call-site clauses for this callee ($argN = the call's arguments).
func (s *State) checkAtCalls(callee *ssa.Function, args []Val, where string) {
	if s.spec == nil {
		return
	}
	for _, ac := range s.spec.AtCalls {
		if ac.Callee != callee.Name() {
			continue
		}
		ac.Used = true
		env := s.specEnv()
		for i, a := range args {
			env.vars[fmt.Sprintf("$arg%d", i)] = a
		}
		cl := ac.Clause
		err := safeSpec(func() {
			s.oblige("atcall", ac.Callee+"/"+cl.Name, cl.Props, env.evalBool(cl.Expr), where, cl.Src)
		})
		if err != nil {
			s.coll.specErr(s.eng, s.fn, cl, err)
		}
	}
}
