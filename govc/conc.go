package main

// Concurrency constructs (go, channels, select): fixed abstraction rules (DESIGN.md 2.5).

import (
	"golang.org/x/tools/go/ssa"
)

func (s *State) execGo(g *ssa.Go, where string) {
	s.unsupported("go statement at %s", where)
}

func (s *State) execSend(in *ssa.Send, where string) {
	s.unsupported("channel send at %s", where)
}

func (s *State) execSelect(in *ssa.Select, where string) Val {
	s.unsupported("select at %s", where)
	return Val{}
}

func (s *State) execRecv(in *ssa.UnOp, ch Val, where string) Val {
	s.unsupported("channel receive at %s", where)
	return Val{}
}
