package main

// Concurrency constructs (go, channels, select): fixed abstraction rules (DESIGN.md 2.5). These are
// ASSUMED semantics, listed in every evidence file that uses them:
//   * go f(args): the spawned function's preconditions are proved at the go statement (kind spawn-pre); the
//     goroutine's effects are not applied to the spawner's state (each goroutine body is verified separately,
//     against its own contract and frame).
//   * ch <- m: ghost event: $sends_<ch> += 1, $sent_<ch> = m (per function activation).
//   * <-ch: ghost event $recvs_<ch> += 1; the received value is arbitrary but satisfies the function's
//     `receives <ch>: P($msg)` clause (channel invariant: assumed at receives; justified by the spawn
//     preconditions and the senders' contracts).
//   * select: non-deterministic choice among its cases (plus default when non-blocking).

import (
	"fmt"
	"go/token"
	"go/types"

	"golang.org/x/tools/go/ssa"
)

// chanName gives the source-level name of the channel an SSA value denotes ("" if unknown).
func chanName(v ssa.Value) string {
	switch x := v.(type) {
	case *ssa.Parameter:
		return x.Name()
	case *ssa.FreeVar:
		return x.Name()
	case *ssa.UnOp:
		if x.Op == token.MUL {
			switch a := x.X.(type) {
			case *ssa.Alloc:
				return a.Comment
			case *ssa.FreeVar:
				return a.Name()
			}
		}
	case *ssa.MakeChan:
		return x.Name()
	}
	return ""
}

// registerChanGhosts scans a function for channel operations and records the ghost variables they use.
func (e *Engine) registerChanGhosts(f *ssa.Function) {
	if e.chanGhostT == nil {
		e.chanGhostT = map[string]types.Type{}
	}
	add := func(ch ssa.Value) {
		n := chanName(ch)
		ct, ok := ch.Type().Underlying().(*types.Chan)
		if n == "" || !ok {
			return
		}
		e.chanGhostT["$sends_"+n] = tInt
		e.chanGhostT["$recvs_"+n] = tInt
		e.chanGhostT["$sent_"+n] = ct.Elem()
		e.chanGhostT["$received_"+n] = ct.Elem()
	}
	for _, b := range f.Blocks {
		for _, in := range b.Instrs {
			switch in := in.(type) {
			case *ssa.Send:
				add(in.Chan)
			case *ssa.UnOp:
				if in.Op == token.ARROW {
					add(in.X)
				}
			case *ssa.Select:
				for _, st := range in.States {
					add(st.Chan)
				}
			case *ssa.Go:
				var cal *ssa.Function
				if c := in.Common().StaticCallee(); c != nil {
					cal = c
				} else if mc, ok := in.Common().Value.(*ssa.MakeClosure); ok {
					cal, _ = mc.Fn.(*ssa.Function)
				}
				if cal != nil {
					for i, a := range in.Common().Args {
						if len(shapeOf(a.Type())) == 1 {
							e.chanGhostT[fmt.Sprintf("$spawnarg_%s_%d", cal.Name(), i)] = a.Type()
						}
					}
				}
			}
		}
	}
}

func (s *State) chanGhostBump(name string) {
	cur := s.ghostGet(name, tInt)
	s.ghost[name] = mkInt(app("+", cur.Terms[0], "1"))
}

func (s *State) execGo(g *ssa.Go, where string) {
	c := g.Common()
	args := s.evalArgs(c)
	callee := c.StaticCallee()
	var binds []Val
	if callee == nil {
		fv := s.valueOf(c.Value)
		callee = fv.Fn
		binds = fv.Binds
	} else if mc, ok := c.Value.(*ssa.MakeClosure); ok {
		binds = s.valueOf(mc).Binds
	}
	s.eng.assumptionsUsed["go statements: the spawned function's preconditions are proved at the spawn site; goroutine bodies are verified separately against their own contracts; scheduling, fairness and the memory model are not modelled"] = true
	if callee == nil {
		s.unsupported("go statement with an unknown function value at %s", where)
	}
	spec, ok := s.eng.specs[s.eng.fnKey(callee)]
	if !ok {
		s.oblige("spawn-pre", "uncontracted:"+callee.Name(), s.defaultProps(), "false", where, "goroutine body has no contract")
		return
	}
	env := &SpecEnv{st: s, vars: map[string]Val{}, old: s.snapshot()}
	if callee.Pkg != nil {
		env.pkg = callee.Pkg.Pkg
	} else if callee.Parent() != nil {
		env.pkg = s.fn.Pkg.Pkg
	}
	for i, p := range callee.Params {
		if i < len(args) {
			env.vars[p.Name()] = args[i]
		}
	}
	for i, fv := range callee.FreeVars {
		if i < len(binds) {
			env.vars["&"+fv.Name()] = binds[i]
		}
	}
	for _, cl := range spec.Requires {
		cl := cl
		err := safeSpec(func() {
			s.oblige("spawn-pre", spec.Name+"/"+cl.Name, unionProps(cl.Props, s.defaultProps()), env.evalBool(cl.Expr), where, cl.Src)
		})
		if err != nil {
			s.coll.specErr(s.eng, s.fn, cl, err)
		}
	}
	// ghost: number of goroutines started per spawn site kind
	key := "$spawns_" + callee.Name()
	cur := s.ghostGet(key, tInt)
	s.ghost[key] = mkInt(app("+", cur.Terms[0], "1"))
	for i, a := range args {
		sh := shapeOf(a.T)
		if len(sh) == 1 && a.Loc == nil {
			s.ghost[fmt.Sprintf("$spawnarg_%s_%d", callee.Name(), i)] = a
		}
	}
}

func (s *State) execSend(in *ssa.Send, where string) {
	ch := s.valueOf(in.Chan)
	v := s.valueOf(in.X)
	s.oblige("safety", "nil-chan-send", []string{"C19"}, not(eq(ch.Terms[0], "0")), where, "")
	n := chanName(in.Chan)
	if n == "" {
		s.unsupported("send on an unnamed channel at %s", where)
	}
	s.eng.assumptionsUsed["channel send/receive: ghost events per named channel; a received message satisfies the receiver's `receives` clause (channel invariant, assumed)"] = true
	s.chanGhostBump("$sends_" + n)
	s.ghost["$sent_"+n] = v
}

func (s *State) recvValue(chv ssa.Value, t types.Type) Val {
	n := chanName(chv)
	v := s.freshVal("recv:"+n, t)
	if n == "" {
		return v
	}
	// channel invariant of the enclosing function
	if s.spec != nil {
		for _, cl := range s.spec.Receives {
			if cl.Name != n {
				continue
			}
			cl := cl
			env := s.specEnv().with("$msg", v)
			_ = safeSpec(func() { s.assume(env.evalBool(cl.Expr)) })
			s.eng.assumptionsUsed["channel invariant (assumed at receive) on "+n+": "+cl.Src] = true
		}
	}
	return v
}

func (s *State) execRecv(in *ssa.UnOp, ch Val, where string) Val {
	n := chanName(in.X)
	et := in.X.Type().Underlying().(*types.Chan).Elem()
	v := s.recvValue(in.X, et)
	if n != "" {
		s.chanGhostBump("$recvs_" + n)
		s.ghost["$received_"+n] = v
	}
	if in.CommaOk {
		ok := s.fresh("recv_ok", sBool)
		out := Val{T: in.Type()}
		out.Terms = append(out.Terms, v.Terms...)
		out.Terms = append(out.Terms, ok)
		return out
	}
	v.T = in.Type()
	return v
}

func (s *State) execSelect(in *ssa.Select, where string) Val {
	s.eng.assumptionsUsed["select: non-deterministic choice among its cases (default included when non-blocking)"] = true
	idx := s.fresh("select_idx", sInt)
	lo := "0"
	if !in.Blocking {
		lo = "(- 1)"
	}
	s.assume(and(app("<=", lo, idx), app("<", idx, fmt.Sprint(len(in.States)))))
	recvOk := s.fresh("select_ok", sBool)
	out := Val{T: in.Type(), Terms: []string{idx, recvOk}}
	for k, st := range in.States {
		if st.Dir == types.RecvOnly {
			et := st.Chan.Type().Underlying().(*types.Chan).Elem()
			// the received value only matters when this case is chosen; its invariant is assumed under that condition
			n := chanName(st.Chan)
			v := s.freshVal("recv:"+n, et)
			if s.spec != nil && n != "" {
				for _, cl := range s.spec.Receives {
					if cl.Name != n {
						continue
					}
					cl := cl
					env := s.specEnv().with("$msg", v)
					_ = safeSpec(func() { s.assume(implies(eq(idx, fmt.Sprint(k)), env.evalBool(cl.Expr))) })
					s.eng.assumptionsUsed["channel invariant (assumed at receive) on "+n+": "+cl.Src] = true
				}
			}
			if n != "" {
				cur := s.ghostGet("$recvs_"+n, tInt)
				chosen := eq(idx, fmt.Sprint(k))
				s.ghost["$recvs_"+n] = mkInt(ite(chosen, app("+", cur.Terms[0], "1"), cur.Terms[0]))
				prev := s.ghostGet("$received_"+n, et)
				nv := Val{T: et}
				for i := range v.Terms {
					nv.Terms = append(nv.Terms, ite(chosen, v.Terms[i], prev.Terms[i]))
				}
				s.ghost["$received_"+n] = nv
			}
			out.Terms = append(out.Terms, v.Terms...)
		} else {
			s.unsupported("select with a send case at %s", where)
		}
	}
	return out
}
