package main

// Engine: loading /repo, indexing functions and contracts, loop analysis.

import (
	"fmt"
	"go/ast"
	"go/constant"
	"go/token"
	"go/types"
	"os"
	"path/filepath"
	"sort"
	"strconv"
	"strings"

	"golang.org/x/tools/go/packages"
	"golang.org/x/tools/go/ssa"
	"golang.org/x/tools/go/ssa/ssautil"
)

type Engine struct {
	repo      string
	prog      *ssa.Program
	fset      *token.FileSet
	pkgs      []*packages.Package
	ssaPkgs   map[string]*ssa.Package // by package name
	typesPkgs map[string]*types.Package
	funcs     map[string]*ssa.Function // "pkgname.RelName"
	specs     map[string]*FuncSpec
	specFiles []*SpecFile
	specFuncs map[string]*SpecFunc
	axioms    []*Axiom
	lemmas    []*Lemma
	strConsts map[string]string // package-level string vars with constant initialisers "pkgpath.Name"
	intConsts map[string]int64  // package-level int vars with constant initialisers that no function of the repository assigns
	counter   int
	heapInfo  map[string]heapLeaf
	usedRec   map[string]bool
	loopCache map[*ssa.Function][]*Loop
	localIdx  map[*ssa.Function]map[string]*ssa.Alloc
	cellCache map[*ssa.Alloc]int
	maxPaths  int
	assumptionsUsed map[string]bool
	specErrors []string
	uninterps  map[string]uninterp
	regexCache map[string]string
	quickQueries int
	ghostDecls map[string]string // ghost name -> type text
	ghostPkg   map[string]string
	localGhost map[string]bool
	cache      *verdictCache
	staleHints []string
	chanGhostT map[string]types.Type // ghost event variables of named channels ($sends_x, $sent_x, $recvs_x, $received_x)
}

var targetPkgs = []string{".", "./internal/option", "./internal/sliceiterator", "./internal/help", "./dag", "./text"}

func loadEngine(repo string) (*Engine, error) {
	cfg := &packages.Config{Mode: packages.LoadSyntax, Dir: repo, Env: append(os.Environ(), "GOFLAGS=-mod=mod", "GOPROXY=off", "GOSUMDB=off", "GOTOOLCHAIN=local")}
	pkgs, err := packages.Load(cfg, targetPkgs...)
	if err != nil {
		return nil, err
	}
	for _, p := range pkgs {
		for _, e := range p.Errors {
			return nil, fmt.Errorf("package %s: %v", p.PkgPath, e)
		}
	}
	prog, spkgs := ssautil.Packages(pkgs, ssa.NaiveForm|ssa.GlobalDebug)
	prog.Build()
	e := &Engine{repo: repo, prog: prog, pkgs: pkgs, ssaPkgs: map[string]*ssa.Package{}, typesPkgs: map[string]*types.Package{},
		funcs: map[string]*ssa.Function{}, specs: map[string]*FuncSpec{}, specFuncs: map[string]*SpecFunc{},
		strConsts: map[string]string{}, intConsts: map[string]int64{}, heapInfo: map[string]heapLeaf{}, usedRec: map[string]bool{},
		loopCache: map[*ssa.Function][]*Loop{}, localIdx: map[*ssa.Function]map[string]*ssa.Alloc{}, cellCache: map[*ssa.Alloc]int{},
		maxPaths: 4000, assumptionsUsed: map[string]bool{}}
	if len(pkgs) > 0 {
		e.fset = pkgs[0].Fset
	}
	for i, sp := range spkgs {
		if sp == nil {
			continue
		}
		name := sp.Pkg.Name()
		e.ssaPkgs[name] = sp
		e.typesPkgs[name] = sp.Pkg
		var addFn func(f *ssa.Function)
		addFn = func(f *ssa.Function) {
			if f == nil || f.Blocks == nil {
				return
			}
			e.funcs[e.fnKey(f)] = f
			e.registerChanGhosts(f)
			for _, a := range f.AnonFuncs {
				addFn(a)
			}
		}
		for _, m := range sp.Members {
			switch m := m.(type) {
			case *ssa.Function:
				addFn(m)
			case *ssa.Type:
				for _, t := range []types.Type{m.Type(), types.NewPointer(m.Type())} {
					ms := prog.MethodSets.MethodSet(t)
					for k := 0; k < ms.Len(); k++ {
						f := prog.MethodValue(ms.At(k))
						if f != nil && f.Pkg == sp && f.Synthetic == "" {
							addFn(f)
						}
					}
				}
			}
		}
		// string constants of package-level vars
		for _, file := range pkgs[i].Syntax {
			for _, d := range file.Decls {
				gd, ok := d.(*ast.GenDecl)
				if !ok || gd.Tok != token.VAR {
					continue
				}
				for _, sp2 := range gd.Specs {
					vs := sp2.(*ast.ValueSpec)
					for k, n := range vs.Names {
						if k < len(vs.Values) {
							if tv, ok := pkgs[i].TypesInfo.Types[vs.Values[k]]; ok && tv.Value != nil && tv.Value.Kind() == constant.String {
								s := constant.StringVal(tv.Value)
								e.strConsts[pkgs[i].PkgPath+"."+n.Name] = s
							}
							if tv, ok := pkgs[i].TypesInfo.Types[vs.Values[k]]; ok && tv.Value != nil && tv.Value.Kind() == constant.Int {
								if v, exact := constant.Int64Val(tv.Value); exact {
									e.intConsts[pkgs[i].PkgPath+"."+n.Name] = v
								}
							}
						}
					}
				}
			}
		}
		// contracts
		dir := ""
		if len(pkgs[i].GoFiles) > 0 {
			dir = filepath.Dir(pkgs[i].GoFiles[0])
		}
		if dir != "" {
			cf := filepath.Join(dir, "verif_contracts.go")
			if _, err := os.Stat(cf); err == nil {
				sf, err := parseSpecFile(cf, name)
				if err != nil {
					return nil, err
				}
				e.specFiles = append(e.specFiles, sf)
				for n, fs := range sf.Funcs {
					e.specs[name+"."+n] = fs
				}
				for _, f := range sf.SpecFuncs {
					if _, dup := e.specFuncs[f.Name]; dup {
						return nil, fmt.Errorf("%s: duplicate spec func %s", f.Where, f.Name)
					}
					e.specFuncs[f.Name] = f
				}
				for g, t := range sf.Ghosts {
					if e.ghostDecls == nil {
						e.ghostDecls = map[string]string{}
						e.ghostPkg = map[string]string{}
					}
					e.ghostDecls[g] = t
					e.ghostPkg[g] = name
				}
				for _, g := range sf.LocalGhosts {
					if e.localGhost == nil {
						e.localGhost = map[string]bool{}
					}
					e.localGhost[g] = true
				}
				e.axioms = append(e.axioms, sf.Axioms...)
				e.lemmas = append(e.lemmas, sf.Lemmas...)
			}
		}
	}
	// an int variable that some function (other than the package initialiser) stores to is not a constant
	for _, f := range e.funcs {
		if f.Name() == "init" {
			continue
		}
		for _, b := range f.Blocks {
			for _, in := range b.Instrs {
				if st, ok := in.(*ssa.Store); ok {
					if g, ok := st.Addr.(*ssa.Global); ok && g.Pkg != nil {
						delete(e.intConsts, g.Pkg.Pkg.Path()+"."+g.Name())
					}
				}
			}
		}
	}
	inlinableHook = e.inlinable
	return e, nil
}

func (e *Engine) fnKey(f *ssa.Function) string {
	if f.Pkg == nil {
		if f.Parent() != nil {
			return e.fnKey(f.Parent()) + "$?"
		}
		return f.String()
	}
	rel := f.RelString(f.Pkg.Pkg)
	return f.Pkg.Pkg.Name() + "." + rel
}

func (e *Engine) pkgByName(name string, from *types.Package) *types.Package {
	if p, ok := e.typesPkgs[name]; ok {
		return p
	}
	if from != nil {
		for _, imp := range from.Imports() {
			if imp.Name() == name {
				return imp
			}
		}
	}
	return nil
}

func (e *Engine) pos(p token.Pos) string {
	if !p.IsValid() {
		return ""
	}
	ps := e.fset.Position(p)
	rel, err := filepath.Rel(e.repo, ps.Filename)
	if err != nil {
		rel = ps.Filename
	}
	return fmt.Sprintf("%s:%d", rel, ps.Line)
}

func (e *Engine) localByName(f *ssa.Function, name string) *ssa.Alloc {
	idx, ok := e.localIdx[f]
	if !ok {
		idx = map[string]*ssa.Alloc{}
		for _, b := range f.Blocks {
			for _, in := range b.Instrs {
				if a, ok := in.(*ssa.Alloc); ok && a.Comment != "" {
					if _, dup := idx[a.Comment]; !dup {
						idx[a.Comment] = a
					} else {
						// several locals with the same name: keep the first, also register name#k
						k := 2
						for {
							n := fmt.Sprintf("%s#%d", a.Comment, k)
							if _, d := idx[n]; !d {
								idx[n] = a
								break
							}
							k++
						}
					}
				}
			}
		}
		e.localIdx[f] = idx
	}
	return idx[name]
}

// localByNameAt resolves a local variable name for a contract clause attached to loop l: when several locals share the
// name, the one declared inside the loop statement wins, else the last one declared before it.
func (e *Engine) localByNameAt(f *ssa.Function, name string, l *Loop) *ssa.Alloc {
	first := e.localByName(f, name)
	if first == nil || l == nil || !l.SrcPos.IsValid() {
		return first
	}
	var inside, before *ssa.Alloc
	for _, b := range f.Blocks {
		for _, in := range b.Instrs {
			a, ok := in.(*ssa.Alloc)
			if !ok || a.Comment != name || !a.Pos().IsValid() {
				continue
			}
			switch {
			case a.Pos() >= l.SrcPos && a.Pos() < l.SrcEnd:
				if inside == nil || a.Pos() < inside.Pos() {
					inside = a
				}
			case a.Pos() < l.SrcPos:
				if before == nil || a.Pos() > before.Pos() {
					before = a
				}
			}
		}
	}
	if inside != nil {
		// a variable declared in an enclosing position but textually inside an inner loop of l is still the closest match
		return inside
	}
	if before != nil {
		return before
	}
	return first
}

// isLocalCell reports whether an Alloc can be kept as a symbolic local (its address never escapes).
func (e *Engine) isLocalCell(a *ssa.Alloc) bool {
	if v, ok := e.cellCache[a]; ok {
		return v == 1
	}
	ok := addrUsesLocal(a, a, 0)
	if ok {
		e.cellCache[a] = 1
	} else {
		e.cellCache[a] = 2
	}
	return ok
}

func addrUsesLocal(root ssa.Value, v ssa.Value, depth int) bool {
	if depth > 6 {
		return false
	}
	refs := v.Referrers()
	if refs == nil {
		return false
	}
	for _, r := range *refs {
		switch r := r.(type) {
		case *ssa.Store:
			if r.Val == v {
				return false
			}
		case *ssa.UnOp:
			if r.Op != token.MUL {
				return false
			}
		case *ssa.FieldAddr:
			if !addrUsesLocal(root, r, depth+1) {
				return false
			}
		case *ssa.IndexAddr:
			if r.X != v || !addrUsesLocal(root, r, depth+1) {
				return false
			}
		case *ssa.Slice:
			if r.X != v {
				return false
			}
			// only arrays can be sliced through their address
			if _, isArr := derefType(v.Type()).Underlying().(*types.Array); !isArr {
				return false
			}
		case *ssa.DebugRef:
		case *ssa.MakeClosure:
			// captured by a closure that is only ever called from this function and has no contract of its own: the
			// closure body is executed in place, the free variable is then just another name for this cell
			if !captureStaysLocal(r, v) {
				return false
			}
		default:
			return false
		}
	}
	return true
}

// inlinableHook is set by the engine: reports whether a function is verified in place (no contract, no library spec).
var inlinableHook func(f *ssa.Function) bool

// captureStaysLocal: the closure mc (which binds v) is stored once into a local variable that is only loaded to be
// called (or is called directly), is not itself captured or passed on, and inside it the free variable bound to v is
// used only through loads, stores and field/index addressing.
func captureStaysLocal(mc *ssa.MakeClosure, v ssa.Value) bool {
	fn, ok := mc.Fn.(*ssa.Function)
	if !ok || inlinableHook == nil || !inlinableHook(fn) {
		return false
	}
	// uses of the closure value
	if mc.Referrers() == nil {
		return false
	}
	for _, r := range *mc.Referrers() {
		switch r := r.(type) {
		case *ssa.Store:
			cell, ok := r.Addr.(*ssa.Alloc)
			if !ok || r.Val != mc || cell.Referrers() == nil {
				return false
			}
			for _, cr := range *cell.Referrers() {
				switch cr := cr.(type) {
				case *ssa.Store:
					if cr != r {
						return false
					}
				case *ssa.DebugRef:
				case *ssa.UnOp:
					if cr.Op != token.MUL || cr.Referrers() == nil {
						return false
					}
					for _, lr := range *cr.Referrers() {
						call, ok := lr.(*ssa.Call)
						if !ok || call.Call.Value != cr {
							if _, dbg := lr.(*ssa.DebugRef); !dbg {
								return false
							}
						}
					}
				default:
					return false
				}
			}
		case *ssa.Call:
			if r.Call.Value != mc {
				return false
			}
		case *ssa.DebugRef:
		default:
			return false
		}
	}
	// uses of the free variable inside the closure
	for i, b := range mc.Bindings {
		if b != v || i >= len(fn.FreeVars) {
			continue
		}
		if !addrUsesLocal(fn.FreeVars[i], fn.FreeVars[i], 1) {
			return false
		}
	}
	return true
}

// ---- loops -------------------------------------------------------------------

type Loop struct {
	Header  *ssa.BasicBlock
	Body    map[*ssa.BasicBlock]bool
	Name    string
	Label   string
	Text    string // normalised header text of the source loop statement
	Ordinal int
	Spec    *LoopSpec
	Parent  *Loop
	MinPos  token.Pos
	Region  map[*ssa.BasicBlock]bool // natural loop plus the blocks of the source loop statement that only lead out of it (break/return paths)
	SrcPos, SrcEnd token.Pos
	RangeIdx *ssa.Alloc // hidden index cell of a range-over-slice loop
	RangeLen ssa.Value
	MapRange *ssa.Range
}

func (e *Engine) loopsOf(f *ssa.Function) []*Loop {
	if ls, ok := e.loopCache[f]; ok {
		return ls
	}
	byHeader := map[*ssa.BasicBlock]*Loop{}
	var loops []*Loop
	for _, b := range f.Blocks {
		for _, s := range b.Succs {
			if s.Dominates(b) {
				// back edge b -> s
				l := byHeader[s]
				if l == nil {
					l = &Loop{Header: s, Body: map[*ssa.BasicBlock]bool{s: true}}
					byHeader[s] = l
					loops = append(loops, l)
				}
				// natural loop: nodes that reach b without passing through s
				stack := []*ssa.BasicBlock{b}
				for len(stack) > 0 {
					n := stack[len(stack)-1]
					stack = stack[:len(stack)-1]
					if l.Body[n] {
						continue
					}
					l.Body[n] = true
					stack = append(stack, n.Preds...)
				}
			}
		}
	}
	for _, l := range loops {
		l.MinPos = token.NoPos
		for b := range l.Body {
			for _, in := range b.Instrs {
				if p := in.Pos(); p.IsValid() && (!l.MinPos.IsValid() || p < l.MinPos) {
					l.MinPos = p
				}
			}
		}
		// range-over-slice: header increments a hidden "rangeindex" cell
		for _, in := range l.Header.Instrs {
			if st, ok := in.(*ssa.Store); ok {
				if a, ok := st.Addr.(*ssa.Alloc); ok && a.Comment == "rangeindex" {
					l.RangeIdx = a
				}
			}
			if bo, ok := in.(*ssa.BinOp); ok && bo.Op == token.LSS && l.RangeIdx != nil {
				l.RangeLen = bo.Y
			}
			if nx, ok := in.(*ssa.Next); ok {
				if r, ok := nx.Iter.(*ssa.Range); ok {
					l.MapRange = r
				}
			}
		}
	}
	// match to source loops (pre-order) to obtain labels and header text
	type srcLoop struct {
		pos   token.Pos
		end   token.Pos
		label string
		text  string
	}
	var src []srcLoop
	if syn := f.Syntax(); syn != nil {
		var body ast.Node
		switch n := syn.(type) {
		case *ast.FuncDecl:
			body = n.Body
		case *ast.FuncLit:
			body = n.Body
		}
		if body != nil {
			labels := map[ast.Stmt]string{}
			ast.Inspect(body, func(n ast.Node) bool {
				if fl, ok := n.(*ast.FuncLit); ok && fl != syn {
					return false
				}
				if ls, ok := n.(*ast.LabeledStmt); ok {
					labels[ls.Stmt] = ls.Label.Name
				}
				switch st := n.(type) {
				case *ast.ForStmt:
					src = append(src, srcLoop{st.Pos(), st.End(), labels[st], e.headerText(st.Pos(), st.Body.Lbrace)})
				case *ast.RangeStmt:
					src = append(src, srcLoop{st.Pos(), st.End(), labels[st], e.headerText(st.Pos(), st.Body.Lbrace)})
				}
				return true
			})
		}
	}
	// assign each SSA loop to the innermost source loop containing its MinPos whose body start is closest
	sort.Slice(loops, func(i, j int) bool { return loops[i].MinPos < loops[j].MinPos })
	used := map[int]bool{}
	for _, l := range loops {
		best := -1
		for k, s := range src {
			if used[k] {
				continue
			}
			if l.MinPos >= s.pos && l.MinPos < s.end {
				// innermost unused containing loop... but an outer loop's MinPos is its own header; choose the first (outermost) unused containing
				best = k
				break
			}
		}
		if best >= 0 {
			used[best] = true
			l.Label = src[best].label
			l.Text = src[best].text
			l.Ordinal = best + 1
			l.SrcPos, l.SrcEnd = src[best].pos, src[best].end
		}
	}
	// a loop without instructions carrying positions in its header may grab the wrong source loop; resolve by order
	for i, l := range loops {
		if l.Ordinal == 0 {
			l.Ordinal = i + 1
		}
		l.Name = fmt.Sprintf("#%d", l.Ordinal)
		if l.Label != "" {
			l.Name = l.Label
		}
	}
	// regions: exit paths written inside the loop statement belong to the iteration that takes them
	for _, l := range loops {
		l.Region = map[*ssa.BasicBlock]bool{}
		for b := range l.Body {
			l.Region[b] = true
		}
		if !l.SrcPos.IsValid() {
			continue
		}
		for _, b := range f.Blocks {
			if l.Region[b] || !l.Header.Dominates(b) {
				continue
			}
			inside, positioned := true, false
			for _, in := range b.Instrs {
				if _, isDbg := in.(*ssa.DebugRef); isDbg {
					continue
				}
				if p := in.Pos(); p.IsValid() {
					positioned = true
					if p < l.SrcPos || p >= l.SrcEnd {
						inside = false
					}
				}
			}
			if inside && positioned {
				l.Region[b] = true
			}
		}
		// blocks without source positions (e.g. the "done" block of an inner range loop) belong to the region
		// when every way into them comes from the region
		for changed := true; changed; {
			changed = false
			for _, b := range f.Blocks {
				if l.Region[b] || !l.Header.Dominates(b) || len(b.Preds) == 0 {
					continue
				}
				positioned := false
				for _, in := range b.Instrs {
					if _, isDbg := in.(*ssa.DebugRef); !isDbg && in.Pos().IsValid() {
						positioned = true
					}
				}
				if positioned {
					continue
				}
				all := true
				for _, p := range b.Preds {
					if !l.Region[p] {
						all = false
					}
				}
				// the block that follows the loop statement is reached from the header's exit edge; it is positioned
				// (or has a predecessor outside the region), so it is not absorbed here unless the loop never exits normally
				if all && b != l.Header {
					l.Region[b] = true
					changed = true
				}
			}
		}
	}
	// parents
	for _, l := range loops {
		for _, o := range loops {
			if o != l && o.Body[l.Header] && len(o.Body) > len(l.Body) {
				if l.Parent == nil || len(o.Body) < len(l.Parent.Body) {
					l.Parent = o
				}
			}
		}
	}
	e.loopCache[f] = loops
	return loops
}

func (e *Engine) headerText(from, to token.Pos) string {
	pf := e.fset.Position(from)
	pt := e.fset.Position(to)
	data, err := os.ReadFile(pf.Filename)
	if err != nil || pt.Offset > len(data) || pf.Offset > pt.Offset {
		return ""
	}
	return strings.Join(strings.Fields(string(data[pf.Offset:pt.Offset])), " ")
}

type badAnchor struct {
	name  string
	props []string
	where string
}

// bindLoopSpecs attaches loop contracts to the loops of f; returns anchors that failed to resolve.
func (e *Engine) bindLoopSpecs(f *ssa.Function, spec *FuncSpec) []badAnchor {
	loops := e.loopsOf(f)
	for _, l := range loops {
		l.Spec = nil
	}
	var bad []badAnchor
	if spec == nil {
		return nil
	}
	// phase 1: exact selectors (label, ordinal, header text); phase 2: for what is left, range loops over the same
	// expression with renamed loop variables
	bound := map[*LoopSpec]bool{}
	for phase := 1; phase <= 2; phase++ {
		for _, ls := range spec.Loops {
			if bound[ls] {
				continue
			}
			var hit *Loop
			// alternatives "A | B": the first selector that resolves wins (e.g. a label, else the header text)
			for _, sel := range strings.Split(ls.Selector, " | ") {
				sel = strings.TrimSpace(sel)
				hit = matchLoopSelector(loops, sel, phase == 2)
				if hit != nil && hit.Spec == nil {
					break
				}
				hit = nil
			}
			if hit != nil {
				hit.Spec = ls
				bound[ls] = true
			}
		}
	}
	for _, ls := range spec.Loops {
		if bound[ls] {
			continue
		}
		sel := ls.Selector
		// a loop contract that only carries proof hints (untagged invariants, no variant, no step clause) and whose
		// loop no longer exists is stale, not violated: whatever needed the hints fails on its own
		hintsOnly := ls.Decreases == nil && len(ls.Steps) == 0
		for _, c := range ls.Invariants {
			if c.Tagged {
				hintsOnly = false
			}
		}
		if hintsOnly {
			e.staleHints = append(e.staleHints, fmt.Sprintf("%s: loop contract %s (%s) names a loop that no longer exists; it only carried untagged proof hints and is ignored", spec.Name, sel, ls.Where))
			continue
		}
		// the failed anchor counts for every property any clause of the orphaned loop contract serves
		props := append([]string(nil), spec.Props...)
		for _, c := range append(append([]*Clause(nil), ls.Invariants...), ls.Steps...) {
			props = unionProps(props, c.Props)
		}
		if ls.Decreases != nil {
			props = unionProps(props, append([]string{"C19"}, ls.Decreases.Props...))
		}
		bad = append(bad, badAnchor{fmt.Sprintf("%s/loop %s", spec.Name, sel), props, ls.Where})
	}
	return bad
}

func matchLoopSelector(loops []*Loop, sel string, renamed bool) *Loop {
	var hit *Loop
	occ := 1
	if k := strings.LastIndex(sel, `"@`); k > 0 {
		if n, err := strconv.Atoi(sel[k+2:]); err == nil {
			occ = n
			sel = sel[:k+1]
		}
	}
	seenText := 0
	for _, l := range loops {
		switch {
		case strings.HasPrefix(sel, "#"):
			if n, err := strconv.Atoi(sel[1:]); err == nil && l.Ordinal == n {
				hit = l
			}
		case strings.HasPrefix(sel, `"`):
			t, _ := strconv.Unquote(sel)
			want := strings.Join(strings.Fields(t), " ")
			// a trailing "..." makes the selector a prefix of the loop header (robust against edits of the tail)
			if t != "" && (l.Text == want || (strings.HasSuffix(want, "...") && strings.HasPrefix(l.Text, strings.TrimSuffix(want, "..."))) || (renamed && l.Spec == nil && sameRange(l.Text, want))) {
				seenText++
				if seenText == occ {
					hit = l
				}
			}
		default:
			if l.Label == sel {
				hit = l
			}
		}
	}
	return hit
}

// sameRange: two range-loop headers over the same expression match even when the loop variables were renamed
// ("for k, option := range m" ~ "for k, opt := range m"), as long as they bind the same number of variables.
func sameRange(a, b string) bool {
	ia, ib := strings.Index(a, " range "), strings.Index(b, " range ")
	if ia < 0 || ib < 0 || strings.HasSuffix(b, "...") {
		return false
	}
	if a[ia:] != b[ib:] {
		return false
	}
	return strings.Count(a[:ia], ",") == strings.Count(b[:ib], ",") && strings.Contains(a[:ia], ":=") == strings.Contains(b[:ib], ":=")
}
