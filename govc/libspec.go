package main

// Trusted specifications of library functions (assumed; listed in every evidence file that uses them).

import (
	"go/token"
	"fmt"
	"go/types"
	"strings"

	"golang.org/x/tools/go/ssa"
)

type libSpec struct {
	fn      func(s *State, c *ssa.CallCommon, args []Val, where string) Val
	allocs  bool
	inplace bool
	ghosts  []string
}

var libSpecs map[string]*libSpec

func libSpecFor(f *ssa.Function) *libSpec {
	if libSpecs == nil {
		initLibSpecs()
	}
	return libSpecs[f.String()]
}

func (s *State) trust(what string) { s.eng.assumptionsUsed["trusted library spec: "+what] = true }

func pureStr(name string, smt func(a []Val) string) *libSpec {
	return &libSpec{fn: func(s *State, c *ssa.CallCommon, args []Val, where string) Val {
		s.trust(name)
		return Val{T: c.Signature().Results().At(0).Type(), Terms: []string{smt(args)}}
	}}
}

func noop(name string) *libSpec {
	return &libSpec{fn: func(s *State, c *ssa.CallCommon, args []Val, where string) Val {
		s.trust(name + " has no effect on program state")
		return s.freshResult(c, "lib")
	}}
}

func mkSliceOf(t types.Type, n string, arrs ...string) Val {
	v := Val{T: t, Terms: []string{n, "false"}}
	v.Terms = append(v.Terms, arrs...)
	return v
}

func initLibSpecs() {
	L := map[string]*libSpec{}
	libSpecs = L
	L["strings.HasPrefix"] = pureStr("strings.HasPrefix = str.prefixof", func(a []Val) string { return app("str.prefixof", a[1].Terms[0], a[0].Terms[0]) })
	L["strings.HasSuffix"] = pureStr("strings.HasSuffix = str.suffixof", func(a []Val) string { return app("str.suffixof", a[1].Terms[0], a[0].Terms[0]) })
	L["strings.Contains"] = pureStr("strings.Contains = str.contains", func(a []Val) string { return app("str.contains", a[0].Terms[0], a[1].Terms[0]) })
	L["strings.TrimPrefix"] = pureStr("strings.TrimPrefix", func(a []Val) string {
		x, p := a[0].Terms[0], a[1].Terms[0]
		return ite(app("str.prefixof", p, x), app("str.substr", x, app("str.len", p), app("-", app("str.len", x), app("str.len", p))), x)
	})
	L["strings.ToLower"] = pureStr("strings.ToLower = uninterpreted str_lower", func(a []Val) string { return app("str_lower", a[0].Terms[0]) })
	L["strings.Repeat"] = &libSpec{fn: func(s *State, c *ssa.CallCommon, args []Val, where string) Val {
		s.trust("strings.Repeat = uninterpreted str_repeat; panics on a negative count (obligation)")
		s.oblige("safety", "repeat-count", []string{"C19"}, app("<=", "0", args[1].Terms[0]), where, "strings.Repeat panics on a negative count")
		return Val{T: c.Signature().Results().At(0).Type(), Terms: []string{app("str_repeat", args[0].Terms[0], args[1].Terms[0])}}
	}}
	L["strings.ReplaceAll"] = pureStr("strings.ReplaceAll = str.replace_all", func(a []Val) string {
		return app("str.replace_all", a[0].Terms[0], a[1].Terms[0], a[2].Terms[0])
	})
	L["strings.Join"] = pureStr("strings.Join = uninterpreted str_join(arr,len,sep)", func(a []Val) string {
		return app("str_join", a[0].Terms[2], a[0].Terms[0], a[1].Terms[0])
	})
	L["strconv.Itoa"] = pureStr("strconv.Itoa = uninterpreted", func(a []Val) string { return app("str_itoa", a[0].Terms[0]) })
	L["os.Getenv"] = pureStr("os.Getenv = uninterpreted total function of the name", func(a []Val) string { return app("os_getenv", a[0].Terms[0]) })
	L["path/filepath.Base"] = pureStr("filepath.Base = uninterpreted", func(a []Val) string { return app("path_base", a[0].Terms[0]) })

	L["strings.SplitN"] = &libSpec{allocs: true, fn: func(s *State, c *ssa.CallCommon, args []Val, where string) Val {
		s.trust("strings.SplitN(s, sep, 2) with non-empty sep: [s] if sep not in s, else [before first sep, after first sep]")
		rt := c.Signature().Results().At(0).Type()
		if constIndexStr(args[2].Terms[0]) != 2 || args[1].Const == nil || *args[1].Const == "" {
			s.bumpAllocTyped(resultTags(c), false)
			return s.freshResult(c, "splitn")
		}
		x, sep := args[0].Terms[0], args[1].Terms[0]
		has := s.define("has", sBool, app("str.contains", x, sep))
		idx := app("str.indexof", x, sep, "0")
		before := app("str.substr", x, "0", idx)
		after := app("str.substr", x, app("+", idx, app("str.len", sep)), app("str.len", x))
		arr := store(store(zeroOfSort(arrSort(sInt, sString)), "0", ite(has, before, x)), "1", ite(has, after, `""`))
		arrc := s.define("splitn", arrSort(sInt, sString), arr)
		return mkSliceOf(rt, ite(has, "2", "1"), arrc)
	}}
	L["strings.Split"] = &libSpec{allocs: true, fn: func(s *State, c *ssa.CallCommon, args []Val, where string) Val {
		rt := c.Signature().Results().At(0).Type()
		x := args[0].Terms[0]
		if args[1].Const != nil && *args[1].Const == "" {
			s.trust("strings.Split(s, \"\") = explode into UTF-8 sequences: uninterpreted explode(s) with len = rune_count(s), every part non-empty, single part == s when rune_count(s) == 1")
			n := app("rune_count", x)
			arr := app("str_explode", x)
			return mkSliceOf(rt, n, arr)
		}
		if args[1].Const == nil {
			s.bumpAllocTyped(resultTags(c), false)
			return s.freshResult(c, "split")
		}
		s.trust("strings.Split(s, sep) with non-empty constant sep: length = 1 + number of non-overlapping sep; part 0 = text before the first sep; part 1 = text between the first and the second sep (or to the end); further parts uninterpreted")
		sep := args[1].Terms[0]
		has := s.define("has", sBool, app("str.contains", x, sep))
		idx := app("str.indexof", x, sep, "0")
		rest := s.define("rest", sString, app("str.substr", x, app("+", idx, app("str.len", sep)), app("str.len", x)))
		has2 := app("str.contains", rest, sep)
		idx2 := app("str.indexof", rest, sep, "0")
		p0 := ite(has, app("str.substr", x, "0", idx), x)
		p1 := ite(has2, app("str.substr", rest, "0", idx2), rest)
		n := s.fresh("split_len", sInt)
		s.assume(eq(n, app("+", "1", app("str_count", x, sep))))
		s.assume(and(implies(not(has), eq(n, "1")), implies(has, app(">=", n, "2")), implies(and(has, not(has2)), eq(n, "2")), implies(and(has, has2), app(">=", n, "3"))))
		tail := s.fresh("split_tail", arrSort(sInt, sString))
		arr := s.define("split", arrSort(sInt, sString), store(store(tail, "0", p0), "1", p1))
		return mkSliceOf(rt, n, arr)
	}}
	L["strconv.Atoi"] = &libSpec{fn: func(s *State, c *ssa.CallCommon, args []Val, where string) Val {
		s.trust("strconv.Atoi(s) = (atoi_val(s), nil) if atoi_ok(s) else (0, non-nil error): uninterpreted oracle; facts: \"\" and \"--\" are not numbers")
		x := args[0].Terms[0]
		ok := app("atoi_ok", x)
		e := s.fresh("atoi_err", sInt)
		s.assume(and(app("<", "0", e), app("<", e, s.alloc)))
		v := Val{T: c.Signature().Results(), Terms: []string{ite(ok, app("atoi_val", x), "0"), ite(ok, "0", e)}}
		s.assume(and(app("<=", minInt, app("atoi_val", x)), app("<=", app("atoi_val", x), maxInt)))
		return v
	}}
	L["strconv.ParseFloat"] = &libSpec{fn: func(s *State, c *ssa.CallCommon, args []Val, where string) Val {
		s.trust("strconv.ParseFloat(s, 64) = (pf_val(s), nil) if pf_ok(s) else (pf_errval(s), non-nil error): uninterpreted oracle; facts: \"\" and \"--\" are not numbers")
		x := args[0].Terms[0]
		ok := app("pf_ok", x)
		e := s.fresh("pf_err", sInt)
		s.assume(and(app("<", "0", e), app("<", e, s.alloc)))
		return Val{T: c.Signature().Results(), Terms: []string{ite(ok, app("pf_val", x), app("pf_errval", x)), ite(ok, "0", e)}}
	}}
	L["errors.Is"] = pureStr("errors.Is(e, t) = (e == t && e != nil) || err_is(e, t), err_is defined by %w wrapping", func(a []Val) string {
		return or(and(eq(a[0].Terms[0], a[1].Terms[0])), app("err_is", a[0].Terms[0], a[1].Terms[0]))
	})
	L["errors.New"] = &libSpec{allocs: true, fn: func(s *State, c *ssa.CallCommon, args []Val, where string) Val {
		e := s.allocRef("err", "$error")
		s.assume(eq(app("err_msg", e), args[0].Terms[0]))
		s.eng.counter++
		q := sym(fmt.Sprintf("t?%d", s.eng.counter))
		s.assume(fmt.Sprintf("(forall ((%s Int)) (! (not (err_is %s %s)) :pattern ((err_is %s %s))))", q, e, q, e, q))
		return Val{T: c.Signature().Results().At(0).Type(), Terms: []string{e}}
	}}
	L["fmt.Sprintf"] = &libSpec{fn: func(s *State, c *ssa.CallCommon, args []Val, where string) Val {
		txt, _ := s.format(args[0], args[1], where)
		return mkStr(txt)
	}}
	L["fmt.Sprint"] = &libSpec{fn: func(s *State, c *ssa.CallCommon, args []Val, where string) Val {
		return mkStr(s.sprint(args[0]))
	}}
	L["fmt.Errorf"] = &libSpec{allocs: true, fn: func(s *State, c *ssa.CallCommon, args []Val, where string) Val {
		s.trust("fmt.Errorf: fresh non-nil error e with err_msg(e) = formatted text; errors.Is(e,t) iff a %w operand w has w == t or errors.Is(w,t)")
		txt, wrapped := s.format(args[0], args[1], where)
		e := s.allocRef("err", "$error")
		s.assume(eq(app("err_msg", e), txt))
		s.eng.counter++
		q := sym(fmt.Sprintf("t?%d", s.eng.counter))
		var alts []string
		for _, w := range wrapped {
			alts = append(alts, and(not(eq(w, "0")), or(eq(w, q), app("err_is", w, q))))
		}
		s.assume(fmt.Sprintf("(forall ((%s Int)) (! (= (err_is %s %s) %s) :pattern ((err_is %s %s))))", q, e, q, or(alts...), e, q))
		return Val{T: c.Signature().Results().At(0).Type(), Terms: []string{e}}
	}}
	out := func(kind string) *libSpec {
		return &libSpec{ghosts: []string{"$out", "$compout", "$out_other"}, fn: func(s *State, c *ssa.CallCommon, args []Val, where string) Val {
			s.trust("fmt.Fprint/Fprintf/Fprintln(w, ...) appends the formatted text to the ghost output of w ($out for Writer, $compout for completionWriter); no other effect")
			var txt string
			switch kind {
			case "Fprintf":
				txt, _ = s.format(args[1], args[2], where)
			case "Fprint":
				txt = s.sprint(args[1])
			case "Fprintln":
				txt = app("str.++", s.sprint(args[1]), strLit("\n"))
			}
			s.emitOutput(args[0], txt)
			return s.freshResult(c, "fprint")
		}}
	}
	L["fmt.Fprintf"] = out("Fprintf")
	L["fmt.Fprint"] = out("Fprint")
	L["fmt.Fprintln"] = out("Fprintln")
	L["sort.Strings"] = &libSpec{inplace: true, fn: func(s *State, c *ssa.CallCommon, args []Val, where string) Val {
		s.trust("sort.Strings(x): x becomes str_sort(x) - same length, sorted, a permutation of the old contents, and a function of the multiset of elements only")
		x := args[0]
		if x.Origin == nil {
			s.unsupported("sort.Strings on a slice that is not a local variable at %s", where)
		}
		nv := Val{T: x.T, Terms: []string{x.Terms[0], x.Terms[1], s.define("sorted", arrSort(sInt, sString), app("str_sort", x.Terms[2], x.Terms[0]))}}
		s.storeTo(x.Origin, nv, where)
		return Val{}
	}}
	for _, n := range []string{"(*log.Logger).Printf", "(*log.Logger).Print", "(*log.Logger).Println", "(*log.Logger).SetPrefix", "(*log.Logger).SetOutput", "time.Sleep"} {
		L[n] = noop(n)
	}
	L["unicode/utf8.DecodeRuneInString"] = &libSpec{fn: func(s *State, c *ssa.CallCommon, args []Val, where string) Val {
		s.trust("utf8.DecodeRuneInString(s) = (opaque rune, size) with size == 0 iff s is empty, otherwise 1 <= size <= min(4, len(s))")
		x := args[0].Terms[0]
		r := s.fresh("rune", sInt)
		sz := s.fresh("runesize", sInt)
		n := app("str.len", x)
		s.assume(and(app("<=", "0", r), app("<=", r, "1114111")))
		s.assume(ite(eq(n, "0"), eq(sz, "0"), and(app("<=", "1", sz), app("<=", sz, "4"), app("<=", sz, n))))
		return Val{T: c.Signature().Results(), Terms: []string{r, sz}}
	}}
	L["(*regexp.Regexp).FindStringSubmatch"] = &libSpec{allocs: true, fn: specFindStringSubmatch}
	L["(*regexp.Regexp).Split"] = &libSpec{allocs: true, fn: specRegexSplit}
	L["(*bytes.Buffer).WriteTo"] = &libSpec{ghosts: []string{"$flushes", "$out", "$out_other", "$compout"}, fn: func(s *State, c *ssa.CallCommon, args []Val, where string) Val {
		s.trust("(*bytes.Buffer).WriteTo(w) issues the buffered bytes to w and empties the buffer; counted as one flush event ($flushes) when that ghost is declared")
		if _, ok := s.eng.ghostDecls["$flushes"]; ok {
			cur := s.ghostGet("$flushes", tInt)
			s.ghost["$flushes"] = mkInt(app("+", cur.Terms[0], "1"))
		}
		return s.freshResult(c, "writeto")
	}}
	L["(*sync.Mutex).Lock"] = &libSpec{ghosts: []string{"$mutexes"}, fn: func(s *State, c *ssa.CallCommon, args []Val, where string) Val {
		s.mutexOp(args[0], true, where)
		return Val{}
	}}
	L["(*sync.Mutex).Unlock"] = &libSpec{ghosts: []string{"$mutexes"}, fn: func(s *State, c *ssa.CallCommon, args []Val, where string) Val {
		s.mutexOp(args[0], false, where)
		return Val{}
	}}
}

// format interprets a constant format string over statically known arguments.
// Returns the SMT text and the list of %w operands.
func (s *State) format(f Val, va Val, where string) (string, []string) {
	// "%-" + strconv.Itoa(n) + "s": left-justified padding
	if f.Const == nil && len(va.Elems) == 1 {
		op, a := sexprArgs(f.Terms[0])
		if op == "str.++" && len(a) == 2 {
			// (str.++ (str.++ "%-" (str_itoa n)) "s")
			if op2, a2 := sexprArgs(a[0]); op2 == "str.++" && len(a2) == 2 {
				a = []string{a2[0], a2[1], a[1]}
			}
		}
		if op == "str.++" && len(a) == 3 && a[0] == strLit("%-") && a[2] == strLit("s") && strings.HasPrefix(a[1], "(str_itoa ") {
			arg := va.Elems[0]
			if arg.Box != nil {
				arg = *arg.Box
			}
			if isString(arg.T) {
				s.trust("fmt %-Ns (N = strconv.Itoa(n)) left-justifies: the result starts with the operand (str_padright)")
				w := strings.TrimSuffix(strings.TrimPrefix(a[1], "(str_itoa "), ")")
				return app("str_padright", arg.Terms[0], w), nil
			}
		}
	}
	if f.Const == nil || (len(va.Elems) == 0 && constIndexStr(va.Terms[0]) != 0) {
		s.eng.assumptionsUsed["fmt with a non-constant format or dynamic argument list is an opaque string"] = true
		return s.fresh("fmt", sString), nil
	}
	s.trust("fmt verbs: %s of a string is the string itself; every other verb/operand is an uninterpreted injective-free function fmt_<verb>(operand); literal text is kept")
	format := *f.Const
	var parts []string
	var wrapped []string
	argi := 0
	lit := ""
	flush := func() {
		if lit != "" {
			parts = append(parts, strLit(lit))
			lit = ""
		}
	}
	for i := 0; i < len(format); i++ {
		ch := format[i]
		if ch != '%' {
			lit += string(ch)
			continue
		}
		j := i + 1
		for j < len(format) && strings.IndexByte("+-# 0123456789.", format[j]) >= 0 {
			j++
		}
		if j >= len(format) {
			lit += format[i:]
			break
		}
		verb := format[j]
		spec := format[i : j+1]
		i = j
		if verb == '%' {
			lit += "%"
			continue
		}
		flush()
		if argi >= len(va.Elems) {
			parts = append(parts, strLit("%!"+string(verb)+"(MISSING)"))
			continue
		}
		a := va.Elems[argi]
		argi++
		if a.Box != nil {
			a = *a.Box
		}
		switch {
		case (verb == 's' || verb == 'v') && spec == "%"+string(verb) && isString(a.T):
			parts = append(parts, a.Terms[0])
		case verb == 'w':
			parts = append(parts, app("err_msg", a.Terms[0]))
			wrapped = append(wrapped, a.Terms[0])
		case (verb == 's' || verb == 'v') && isErrorT(a.T):
			parts = append(parts, app("err_msg", a.Terms[0]))
		default:
			parts = append(parts, s.fmtOpaque(spec, a))
		}
	}
	flush()
	if len(parts) == 0 {
		return `""`, wrapped
	}
	if len(parts) == 1 {
		return parts[0], wrapped
	}
	return app("str.++", parts...), wrapped
}

func isErrorT(t types.Type) bool {
	return types.Identical(t, types.Universe.Lookup("error").Type())
}

// fmtOpaque: formatted text of a non-string operand: an uninterpreted function of the operand's leaves.
func (s *State) fmtOpaque(spec string, a Val) string {
	sh := shapeOf(a.T)
	fn := "fmt:" + spec + ":" + typeKey(a.T)
	var sorts []string
	for _, l := range sh {
		sorts = append(sorts, l.Sort)
	}
	name := s.eng.uninterp(fn, sorts, sString)
	return app(name, a.Terms...)
}

func (s *State) sprint(va Val) string {
	if len(va.Elems) == 1 {
		a := va.Elems[0]
		if a.Box != nil {
			a = *a.Box
		}
		if isString(a.T) {
			return a.Terms[0]
		}
		return s.fmtOpaque("%v", a)
	}
	s.eng.assumptionsUsed["fmt.Sprint/Fprint with several operands is an opaque string"] = true
	return s.fresh("sprint", sString)
}

// emitOutput appends text to the ghost output stream of writer w.
func (s *State) emitOutput(w Val, txt string) {
	stream := "$out_other"
	if w.Box != nil {
		w = *w.Box
	}
	switch w.Terms[0] {
	case sym("g:getoptions.Writer"):
		stream = "$out"
	case sym("g:getoptions.completionWriter"):
		stream = "$compout"
	}
	cur := s.ghostGet(stream, tString)
	s.ghost[stream] = Val{T: tString, Terms: []string{s.define("out", sString, app("str.++", cur.Terms[0], txt))}}
}

// ghostGet returns a ghost variable, creating its entry-state constant on first use.
func (s *State) ghostGet(name string, t types.Type) Val {
	if v, ok := s.ghost[name]; ok {
		return v
	}
	v := Val{T: t}
	for _, l := range shapeOf(t) {
		v.Terms = append(v.Terms, s.ghostConst(name, l))
	}
	s.ghost[name] = v
	return v
}

// ghostConst declares (once per path) the entry-state constant of a ghost variable leaf.
func (s *State) ghostConst(name string, l Leaf) string {
	c := sym("G0:" + name + l.Name)
	decl := fmt.Sprintf("(declare-const %s %s)", c, l.Sort)
	for _, cm := range s.cmds {
		if cm == decl {
			return c
		}
	}
	s.cmds = append(s.cmds, decl)
	return c
}

func (s *State) mutexOp(m Val, lock bool, where string) {
	// ghost lock state: an SMT array from mutex addresses to "held by this goroutine"; a mutex that is a struct field is
	// addressed by (object reference, field path), one that is a local variable by its own constant
	addr := s.mutexAddr(m)
	cur := s.mutexState()
	if lock {
		s.ghost["$mutexes"] = Val{T: tBool, Terms: []string{s.define("locks", arrSort(sInt, sBool), store(cur, addr, "true"))}}
	} else {
		s.oblige("assert", "unlock-of-held-mutex", s.defaultProps(), sel(cur, addr), where, "")
		s.ghost["$mutexes"] = Val{T: tBool, Terms: []string{s.define("locks", arrSort(sInt, sBool), store(cur, addr, "false"))}}
	}
}

func (s *State) mutexState() string {
	if v, ok := s.ghost["$mutexes"]; ok {
		return v.Terms[0]
	}
	// on entry this goroutine holds no mutex
	return zeroOfSort(arrSort(sInt, sBool))
}

func (s *State) mutexAddr(m Val) string {
	if m.Loc == nil {
		return app("mutex_addr", m.Terms[0], "0")
	}
	base := m.Loc.Ref
	if m.Loc.Cell != nil {
		name := sym("mutexcell:" + m.Loc.Cell.Name() + ":" + m.Loc.Cell.Comment)
		decl := fmt.Sprintf("(declare-const %s Int)", name)
		found := false
		for _, c := range s.cmds {
			if c == decl {
				found = true
			}
		}
		if !found {
			s.cmds = append(s.cmds, decl)
		}
		base = name
	}
	addr := base
	for _, p := range m.Loc.Path {
		if p.Field >= 0 {
			addr = app("mutex_addr", addr, fmt.Sprint(p.Field))
		} else {
			addr = app("mutex_addr", addr, app("+", "1000", p.Index))
		}
	}
	if len(m.Loc.Path) == 0 {
		addr = app("mutex_addr", addr, "0")
	}
	return addr
}

func locKey(v Val) string {
	if v.Loc == nil {
		return v.Terms[0]
	}
	k := v.Loc.Ref
	if v.Loc.Cell != nil {
		k = "cell:" + v.Loc.Cell.Name()
	}
	for _, p := range v.Loc.Path {
		if p.Field >= 0 {
			k += fmt.Sprintf(".%d", p.Field)
		} else {
			k += "[" + p.Index + "]"
		}
	}
	return k
}

// specFindStringSubmatch: closed form for the option regexps (trusted; validated by the sampler).
func specFindStringSubmatch(s *State, c *ssa.CallCommon, args []Val, where string) Val {
	rt := c.Signature().Results().At(0).Type()
	pat, ok := s.eng.regexOf(args[0])
	x := args[1].Terms[0]
	dotall := false
	switch pat {
	case `^(--?)([^=]+)(.*?)$`:
	case `(?s)^(--?)([^=]+)(.*?)$`, `^(--?)([^=]+)((?s).*?)$`, `^(--?)([^=]+)((?s:.*?))$`, `(?s:^(--?)([^=]+)(.*?)$)`:
		dotall = true
	default:
		ok = false
	}
	if !ok {
		s.eng.assumptionsUsed["regexp with an unrecognised pattern: result opaque"] = true
		s.bumpAllocTyped(resultTags(c), false)
		return s.freshResult(c, "regex")
	}
	s.trust("regexp " + pat + ": closed form (match iff s starts with '-', the longest '='-free prefix L of the text after the dashes is non-empty" +
		map[bool]string{false: " and the remainder contains no newline", true: ""}[dotall] + "; groups = dashes, L, remainder)")
	// dashes: "--" if s starts with "--" and the char after is not "=" and exists; otherwise "-"
	n := app("str.len", x)
	two := and(app("str.prefixof", strLit("--"), x), app(">", n, "2"), not(eq(app("str.at", x, "2"), strLit("="))))
	two = s.define("two", sBool, two)
	d := ite(two, "2", "1")
	rest := s.define("rest", sString, app("str.substr", x, d, n))
	// L = longest prefix of rest without '='
	ie := app("str.indexof", rest, strLit("="), "0")
	L := s.define("L", sString, ite(app("<", ie, "0"), rest, app("str.substr", rest, "0", ie)))
	rem := s.define("rem", sString, app("str.substr", rest, app("str.len", L), app("str.len", rest)))
	match := and(app("str.prefixof", strLit("-"), x), app(">", app("str.len", L), "0"))
	if !dotall {
		match = and(match, not(app("str.contains", rem, strLit("\n"))))
		// [^=]+ may contain newlines; only group 3 (.*?) cannot
	}
	match = s.define("match", sBool, match)
	arr := store(store(store(store(zeroOfSort(arrSort(sInt, sString)), "0", x), "1", ite(two, strLit("--"), strLit("-"))), "2", L), "3", rem)
	arrc := s.define("groups", arrSort(sInt, sString), arr)
	v := Val{T: rt, Terms: []string{ite(match, "4", "0"), not(match), arrc}}
	return v
}

// specRegexSplit: regexp.MustCompile(`\s+`).Split(s, -1) is the uninterpreted word list of s (ws_count / ws_words): the
// pieces of s between maximal runs of ASCII white space [\t\n\f\r ], at least one piece. Any other pattern or limit is opaque.
func specRegexSplit(s *State, c *ssa.CallCommon, args []Val, where string) Val {
	rt := c.Signature().Results().At(0).Type()
	pat, ok := s.eng.regexOf(args[0])
	if !ok {
		pat, ok = localRegexOf(c.Args[0])
	}
	if k, isK := c.Args[2].(*ssa.Const); !isK || k.Value == nil || k.Int64() >= 0 {
		ok = false
	}
	if !ok || pat != `\s+` {
		s.eng.assumptionsUsed["regexp with an unrecognised pattern: result opaque"] = true
		s.bumpAllocTyped(resultTags(c), false)
		return s.freshResult(c, "regex")
	}
	s.trust("regexp \\s+ Split(s, -1): the word list of s (uninterpreted ws_count/ws_words; at least one word; the words of s between maximal runs of [\\t\\n\\f\\r ])")
	x := args[1].Terms[0]
	arr := s.define("words", arrSort(sInt, sString), app("ws_words", x))
	n := s.define("nwords", sInt, app("ws_count", x))
	s.assume(app("<=", "1", n))
	s.bumpAllocTyped(resultTags(c), false)
	return Val{T: rt, Terms: []string{n, "false", arr}}
}

// localRegexOf: the constant pattern of a *regexp.Regexp held in a local variable that is assigned once from regexp.MustCompile(constant).
func localRegexOf(v ssa.Value) (string, bool) {
	if u, ok := v.(*ssa.UnOp); ok && u.Op == token.MUL {
		a, ok := u.X.(*ssa.Alloc)
		if !ok || !assignedOnce(a) {
			return "", false
		}
		for _, r := range *a.Referrers() {
			if st, ok := r.(*ssa.Store); ok {
				v = st.Val
			}
		}
	}
	call, ok := v.(*ssa.Call)
	if !ok {
		return "", false
	}
	if cal := call.Common().StaticCallee(); cal != nil && cal.String() == "regexp.MustCompile" {
		if k, ok := call.Common().Args[0].(*ssa.Const); ok && k.Value != nil {
			return constantString(k), true
		}
	}
	return "", false
}

// regexOf finds the pattern a *regexp.Regexp value was compiled from (package-level vars initialised with MustCompile(constant)).
func (e *Engine) regexOf(v Val) (string, bool) {
	for name, pat := range e.regexGlobals() {
		if v.Terms[0] == sym("g:"+name) {
			return pat, true
		}
	}
	return "", false
}

func (e *Engine) regexGlobals() map[string]string {
	if e.regexCache != nil {
		return e.regexCache
	}
	e.regexCache = map[string]string{}
	for pn, sp := range e.ssaPkgs {
		init := sp.Func("init")
		if init == nil {
			continue
		}
		for _, b := range init.Blocks {
			for _, in := range b.Instrs {
				st, ok := in.(*ssa.Store)
				if !ok {
					continue
				}
				g, ok := st.Addr.(*ssa.Global)
				if !ok {
					continue
				}
				call, ok := st.Val.(*ssa.Call)
				if !ok {
					continue
				}
				if cal := call.Common().StaticCallee(); cal != nil && cal.String() == "regexp.MustCompile" {
					if k, ok := call.Common().Args[0].(*ssa.Const); ok && k.Value != nil {
						e.regexCache[pn+"."+g.Name()] = constantString(k)
					}
				}
			}
		}
	}
	return e.regexCache
}
