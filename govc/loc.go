package main

// Loads and stores through symbolic locations.

import (
	"fmt"
	"go/types"
	"strings"
)

func derefType(t types.Type) types.Type {
	if p, ok := t.Underlying().(*types.Pointer); ok {
		return p.Elem()
	}
	return nil
}

// locOf converts a pointer-typed value into a location.
func (s *State) locOf(v Val) *Loc {
	if v.Loc != nil {
		return v.Loc
	}
	return &Loc{Ref: v.Terms[0], RootT: derefType(v.T)}
}

// project extracts the sub-value selected by path from root value v.
func (s *State) project(v Val, path []Sel) Val {
	for _, sl := range path {
		switch u := v.T.Underlying().(type) {
		case *types.Struct:
			lo, hi := fieldRange(u, sl.Field)
			nv := Val{T: u.Field(sl.Field).Type(), Terms: v.Terms[lo:hi]}
			v = nv
		case *types.Array:
			if sl.ConstIx >= 0 && sl.ConstIx < len(v.Elems) {
				v = v.Elems[sl.ConstIx]
				continue
			}
			nv := Val{T: u.Elem()}
			for _, t := range v.Terms {
				nv.Terms = append(nv.Terms, sel(t, sl.Index))
			}
			v = nv
		case *types.Slice:
			if sl.ConstIx >= 0 && sl.ConstIx < len(v.Elems) {
				v = v.Elems[sl.ConstIx]
				continue
			}
			nv := Val{T: u.Elem()}
			for _, t := range v.Terms[2:] {
				nv.Terms = append(nv.Terms, sel(t, sl.Index))
			}
			v = nv
		default:
			panic(fmt.Sprintf("project: cannot select from %s", v.T))
		}
	}
	return v
}

// inject returns root value v with the sub-value at path replaced by nv.
func (s *State) inject(v Val, path []Sel, nv Val) Val {
	if len(path) == 0 {
		return nv
	}
	sl := path[0]
	switch u := v.T.Underlying().(type) {
	case *types.Struct:
		lo, hi := fieldRange(u, sl.Field)
		sub := Val{T: u.Field(sl.Field).Type(), Terms: v.Terms[lo:hi]}
		sub = s.inject(sub, path[1:], nv)
		out := Val{T: v.T}
		out.Terms = append(out.Terms, v.Terms[:lo]...)
		out.Terms = append(out.Terms, sub.Terms...)
		out.Terms = append(out.Terms, v.Terms[hi:]...)
		return out
	case *types.Array:
		sub := s.project(v, path[:1])
		sub = s.inject(sub, path[1:], nv)
		out := Val{T: v.T}
		for i, t := range v.Terms {
			out.Terms = append(out.Terms, store(t, sl.Index, sub.Terms[i]))
		}
		if sl.ConstIx >= 0 {
			n := int(u.Len())
			out.Elems = make([]Val, n)
			for i := 0; i < n; i++ {
				if i < len(v.Elems) && v.Elems[i].T != nil {
					out.Elems[i] = v.Elems[i]
				} else {
					out.Elems[i] = s.project(Val{T: v.T, Terms: v.Terms}, []Sel{{Field: -1, Index: fmt.Sprint(i), ConstIx: -1}})
				}
			}
			out.Elems[sl.ConstIx] = sub
		}
		return out
	case *types.Slice:
		sub := s.project(Val{T: v.T, Terms: v.Terms}, path[:1])
		sub = s.inject(sub, path[1:], nv)
		out := Val{T: v.T, Origin: v.Origin}
		out.Terms = append(out.Terms, v.Terms[0], v.Terms[1])
		for i, t := range v.Terms[2:] {
			out.Terms = append(out.Terms, s.define("arr", shapeOf(v.T)[2+i].Sort, store(t, sl.Index, sub.Terms[i])))
		}
		return out
	}
	panic(fmt.Sprintf("inject: cannot select into %s", v.T))
}

// rootLoad loads the value at the root of loc (possibly restricted to its first field).
func (s *State) load(loc *Loc, where string) Val {
	if loc.Det != nil && loc.Cell == nil && loc.Ref == "" {
		return s.project(*loc.Det, loc.Path)
	}
	if loc.Cell != nil {
		root, ok := s.cells[loc.Cell]
		if !ok {
			root = zeroVal(derefType(loc.Cell.Type()))
		}
		return s.project(root, loc.Path)
	}
	// heap root
	s.oblige("safety", "nil-deref", []string{"C19"}, not(eq(loc.Ref, "0")), where, "")
	if st, ok := loc.RootT.Underlying().(*types.Struct); ok {
		if len(loc.Path) == 0 {
			// whole struct load
			v := Val{T: loc.RootT}
			for i := 0; i < st.NumFields(); i++ {
				fv := s.loadHeap(fieldHeapBase(loc.RootT, st, i), st.Field(i).Type(), loc.Ref)
				v.Terms = append(v.Terms, fv.Terms...)
			}
			return v
		}
		f := loc.Path[0].Field
		fv := s.loadHeap(fieldHeapBase(loc.RootT, st, f), st.Field(f).Type(), loc.Ref)
		return s.project(fv, loc.Path[1:])
	}
	cv := s.loadHeap(cellHeapBase(loc.RootT), loc.RootT, loc.Ref)
	return s.project(cv, loc.Path)
}

func (s *State) storeTo(loc *Loc, v Val, where string) {
	if v.Shared && (loc.Cell == nil || len(loc.Path) > 0) {
		// the Shared mark lives on the value held by a local variable; once the slice sits in a field or behind a pointer the
		// mark is lost and a later append would be verified as if it could not touch the slice it was cut from
		s.unsupported("a re-sliced slice is stored in a field or behind a pointer at %s: it shares its backing array with the slice it was cut from (backing-array aliasing is not modelled)", where)
	}
	if loc.Det != nil && loc.Cell == nil && loc.Ref == "" {
		s.unsupported("element store into a slice that is not held in a local variable or field at %s", where)
	}
	if loc.Cell != nil {
		root, ok := s.cells[loc.Cell]
		if !ok {
			root = zeroVal(derefType(loc.Cell.Type()))
		}
		nv := s.inject(root, loc.Path, v)
		if len(loc.Path) == 0 {
			nv = v
			nv.T = derefType(loc.Cell.Type())
		}
		s.cells[loc.Cell] = nv
		return
	}
	s.oblige("safety", "nil-deref", []string{"C19"}, not(eq(loc.Ref, "0")), where, "")
	if st, ok := loc.RootT.Underlying().(*types.Struct); ok {
		if len(loc.Path) == 0 {
			for i := 0; i < st.NumFields(); i++ {
				lo, hi := fieldRange(st, i)
				base := fieldHeapBase(loc.RootT, st, i)
				s.checkFrameWrite(base, loc.Ref, where)
				s.storeHeap(base, st.Field(i).Type(), loc.Ref, Val{T: st.Field(i).Type(), Terms: v.Terms[lo:hi]})
			}
			return
		}
		f := loc.Path[0].Field
		base := fieldHeapBase(loc.RootT, st, f)
		ft := st.Field(f).Type()
		nv := v
		if len(loc.Path) > 1 {
			cur := s.loadHeap(base, ft, loc.Ref)
			nv = s.inject(cur, loc.Path[1:], v)
		}
		s.checkFrameWrite(base, loc.Ref, where)
		s.storeHeap(base, ft, loc.Ref, nv)
		return
	}
	base := cellHeapBase(loc.RootT)
	nv := v
	if len(loc.Path) > 0 {
		cur := s.loadHeap(base, loc.RootT, loc.Ref)
		nv = s.inject(cur, loc.Path, v)
	}
	s.checkFrameWrite(base, loc.Ref, where)
	s.storeHeap(base, loc.RootT, loc.Ref, nv)
}

// checkFrameWrite emits the frame obligations for a write to heap `base` at ref,
// for the function frame and every enclosing loop frame.
func (s *State) checkFrameWrite(base, ref, where string) {
	check := func(fr *frameSpec, scope string) {
		if fr == nil || fr.Unrestricted || fr.Whole[base] {
			return
		}
		// a write through nil cannot happen (it panics; separate obligation), so the nil reference is always "in frame"
		alts := []string{app(">=", ref, fr.AllocPre), eq(ref, "0")}
		for _, r := range fr.Refs[base] {
			alts = append(alts, eq(ref, r))
		}
		s.oblige("frame", "write:"+base+"@"+scope, s.structProps(), or(alts...), where, "modifies "+fr.Desc)
	}
	check(s.fnFrame, "func")
	for _, lf := range s.loops {
		check(lf.Frame, "loop:"+lf.L.Name)
		// the model of range-over-map assumes the ranged map itself is not written inside the loop
		if lf.L.MapRange != nil && strings.HasPrefix(base, "mapdom<") {
			if it, ok := s.iters[lf.L.MapRange]; ok && base == "mapdom<"+typeKey(it.MapT)+">" {
				s.oblige("safety", "ranged-map-unmodified@"+lf.L.Name, append([]string{"C19"}, s.defaultProps()...), not(eq(ref, it.MapRef)), where, "a map is written while it is being ranged over")
			}
		}
	}
}

func (s *State) defaultProps() []string {
	if s.spec != nil {
		return s.spec.Props
	}
	return nil
}

// structProps: properties charged with a structural failure (unsupported construct, un-framed havoc, broken requires):
// such a failure cuts the path or empties what follows, so it counts for every property the function's contract serves.
func (s *State) structProps() []string {
	if s.spec != nil {
		return unionProps(s.spec.Props, allProps(s.spec))
	}
	return nil
}
