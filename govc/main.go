package main

import (
	"encoding/json"
	"flag"
	"fmt"
	"os"
	"path/filepath"
	"regexp"
	"sort"
	"strconv"
	"strings"
	"time"

	"golang.org/x/tools/go/ssa"
)

func main() {
	if len(os.Args) < 2 {
		fmt.Fprintln(os.Stderr, "usage: govc check|run|all|list ...")
		os.Exit(2)
	}
	switch os.Args[1] {
	case "check":
		os.Exit(cmdCheck(os.Args[2:]))
	case "run":
		os.Exit(cmdRun(os.Args[2:]))
	case "all":
		os.Exit(cmdAll(os.Args[2:]))
	case "list":
		os.Exit(cmdList(os.Args[2:]))
	}
	fmt.Fprintln(os.Stderr, "unknown command", os.Args[1])
	os.Exit(2)
}

func hasProp(ps []string, p string) bool {
	for _, x := range ps {
		if x == p {
			return true
		}
	}
	return false
}

func specMentions(spec *FuncSpec, prop string) bool {
	if hasProp(spec.Props, prop) {
		return true
	}
	for _, c := range spec.Requires {
		if hasProp(c.Props, prop) {
			return true
		}
	}
	for _, c := range spec.Ensures {
		if hasProp(c.Props, prop) {
			return true
		}
	}
	for _, c := range spec.MayPanic {
		if hasProp(c.Props, prop) {
			return true
		}
	}
	for _, a := range spec.AtCalls {
		if hasProp(a.Clause.Props, prop) {
			return true
		}
	}
	for _, fl := range spec.Flows {
		if hasProp(fl.Props, prop) {
			return true
		}
	}
	for _, l := range spec.Loops {
		for _, c := range append(append([]*Clause(nil), l.Invariants...), l.Steps...) {
			if hasProp(c.Props, prop) {
				return true
			}
		}
	}
	return false
}

func (e *Engine) sortedSpecKeys() []string {
	var ks []string
	for k := range e.specs {
		ks = append(ks, k)
	}
	for _, lm := range e.lemmas {
		ks = append(ks, lm.Pkg+".lemma "+lm.Name)
	}
	sort.Strings(ks)
	return ks
}

// generate produces the obligations of the given functions.
func (e *Engine) generate(keys []string) ([]*Obligation, []string, []string) {
	var obls []*Obligation
	var notes, unsup []string
	for _, k := range keys {
		spec := e.specs[k]
		if strings.Contains(k, ".type ") || strings.Contains(k, ".lemma ") {
			continue
		}
		f := e.funcs[k]
		if f == nil {
			obls = append(obls, &Obligation{Func: k, Kind: "anchor", Name: "anchor:" + k, Props: allProps(spec), Goal: "false", Expect: "unsat",
				Where: spec.Where, Detail: "contract names a function that does not exist in the current source"})
			continue
		}
		coll := e.verifyFunction(f, spec)
		for _, o := range coll.obls {
			if o.Func == "" {
				o.Func = k
			}
		}
		obls = append(obls, coll.obls...)
		notes = append(notes, coll.notes...)
		unsup = append(unsup, coll.unsupported...)
	}
	// lemmas (standalone facts about spec functions, e.g. single-valuedness of a postcondition)
	for _, lm := range e.lemmas {
		key := lm.Pkg + ".lemma " + lm.Name
		want := false
		for _, k := range keys {
			if k == key {
				want = true
			}
		}
		if !want {
			continue
		}
		obls = append(obls, e.verifyLemma(lm)...)
	}
	// stable ids
	count := map[string]int{}
	for _, o := range obls {
		base := o.Func + "/" + o.Kind + "/" + o.Name
		count[base]++
		o.ID = fmt.Sprintf("%s#%d", base, count[base])
	}
	return obls, notes, unsup
}

func allProps(spec *FuncSpec) []string {
	seen := map[string]bool{}
	var out []string
	add := func(ps []string) {
		for _, p := range ps {
			if !seen[p] {
				seen[p] = true
				out = append(out, p)
			}
		}
	}
	add(spec.Props)
	for _, c := range spec.Requires {
		add(c.Props)
	}
	for _, c := range spec.Ensures {
		add(c.Props)
	}
	for _, a := range spec.AtCalls {
		add(a.Clause.Props)
	}
	for _, l := range spec.Loops {
		for _, c := range l.Invariants {
			add(c.Props)
		}
		for _, c := range l.Steps {
			add(c.Props)
		}
	}
	return out
}

func cmdRun(args []string) int {
	fs := flag.NewFlagSet("run", flag.ExitOnError)
	repo := fs.String("repo", "/repo", "repository")
	fn := fs.String("func", "", "function key regexp (pkg.Name)")
	dump := fs.Bool("dump", false, "keep and print the SMT file names")
	timeout := fs.Int("timeout", 10, "per-obligation timeout (s)")
	verbose := fs.Bool("v", false, "print every obligation")
	work := fs.String("work", "", "work directory")
	cacheDir := fs.String("cache", "/verif/.cache", "verdict cache directory (empty: no cache)")
	fs.Parse(args)
	e, err := loadEngine(*repo)
	if err != nil {
		fmt.Fprintln(os.Stderr, "load:", err)
		return 2
	}
	if *cacheDir != "" && os.Getenv("GOVC_NOCACHE") == "" && !*dump && *work == "" {
		e.cache = e.openCache(*cacheDir)
	}
	re := regexp.MustCompile(*fn)
	var keys []string
	for _, k := range e.sortedSpecKeys() {
		if re.MatchString(k) {
			keys = append(keys, k)
		}
	}
	obls, notes, _ := e.generate(keys)
	wd := *work
	if wd == "" {
		wd, _ = os.MkdirTemp("", "govc")
		if !*dump {
			defer os.RemoveAll(wd)
		}
	}
	t0 := time.Now()
	e.solveAll(obls, wd, *timeout, 16, false)
	fails := 0
	for _, o := range obls {
		if o.Status != "discharged" {
			fails++
		}
		if *verbose || o.Status != "discharged" {
			fmt.Printf("%-10s %-8s %6.2fs %s  [%s] %s %s\n", o.Status, o.Solver, o.Time, o.ID, strings.Join(o.Props, ","), o.Where, o.Detail)
			if o.Status != "discharged" {
				if o.Spec != "" {
					fmt.Printf("           spec: %s\n", o.Spec)
				}
				fmt.Printf("           path: %s file: %s\n", o.Path, o.File)
				if o.Model != "" && *dump {
					fmt.Println(indent(modelSummary(o.Model, o.Inputs), "           "))
				}
			}
		}
	}
	for _, n := range dedup(notes) {
		fmt.Println("note:", n)
	}
	for _, s := range e.specErrors {
		fmt.Println("spec error:", s)
	}
	fmt.Printf("%d obligations, %d failed, %.1fs (work %s)\n", len(obls), fails, time.Since(t0).Seconds(), wd)
	if fails > 0 {
		return 1
	}
	return 0
}

func indent(s, p string) string { return p + strings.ReplaceAll(s, "\n", "\n"+p) }

func dedup(a []string) []string {
	seen := map[string]bool{}
	var out []string
	for _, x := range a {
		if !seen[x] {
			seen[x] = true
			out = append(out, x)
		}
	}
	return out
}

func cmdAll(args []string) int {
	return cmdRun(append([]string{"-func", "."}, args...))
}

func cmdList(args []string) int {
	fs := flag.NewFlagSet("list", flag.ExitOnError)
	repo := fs.String("repo", "/repo", "repository")
	fs.Parse(args)
	e, err := loadEngine(*repo)
	if err != nil {
		fmt.Fprintln(os.Stderr, "load:", err)
		return 2
	}
	var ks []string
	for k := range e.funcs {
		ks = append(ks, k)
	}
	sort.Strings(ks)
	for _, k := range ks {
		mark := " "
		if _, ok := e.specs[k]; ok {
			mark = "*"
		}
		loops := e.loopsOf(e.funcs[k])
		var ls []string
		for _, l := range loops {
			ls = append(ls, fmt.Sprintf("%s(%q)", l.Name, l.Text))
		}
		fmt.Printf("%s %s  %s\n", mark, k, strings.Join(ls, " "))
	}
	return 0
}

// modelSummary extracts the values of the input constants from a z3 model.
func modelSummary(model string, inputs []string) string {
	vals := parseModel(model)
	var out []string
	for _, in := range inputs {
		if v, ok := vals[in]; ok {
			out = append(out, in+" = "+v)
		}
	}
	return strings.Join(out, "\n")
}

var defRe = regexp.MustCompile(`\(define-fun (\|[^|]*\||[^ ]+) \(\) [^\n]*\n\s*(.*)\)`)

func parseModel(model string) map[string]string {
	out := map[string]string{}
	for _, m := range defRe.FindAllStringSubmatch(model, -1) {
		out[m[1]] = strings.TrimSpace(m[2])
	}
	return out
}

// ---- check: the registered per-property command ------------------------------------

type knownFinding struct {
	Property   string `json:"property"`
	Status     string `json:"status"` // known | fixed
	Obligation string `json:"obligation"` // regexp over obligation ids
	What       string `json:"what"`
	Commit     string `json:"commit,omitempty"`
}

func cmdCheck(args []string) int {
	fs := flag.NewFlagSet("check", flag.ExitOnError)
	repo := fs.String("repo", "/repo", "repository")
	prop := fs.String("property", "", "property id")
	tier := fs.String("tier", "quick", "quick|thorough")
	verif := fs.String("verif", "/verif", "verif directory")
	nocache := fs.Bool("nocache", false, "do not use the verdict cache")
	fs.Parse(args)
	t0 := time.Now()
	if t := os.Getenv("VERIF_TIER"); t == "quick" || t == "thorough" {
		*tier = t
	}
	seed, _ := strconv.Atoi(os.Getenv("VERIF_SEED"))
	e, err := loadEngine(*repo)
	if err != nil {
		// a tree that does not load is reported as a broken check input, not as a violation
		fmt.Fprintln(os.Stderr, "govc: cannot load repository:", err)
		return 2
	}
	var keys []string
	for _, k := range e.sortedSpecKeys() {
		if strings.Contains(k, ".lemma ") {
			for _, lm := range e.lemmas {
				if lm.Pkg+".lemma "+lm.Name == k && hasProp(lm.Props, *prop) {
					keys = append(keys, k)
				}
			}
			continue
		}
		if specMentions(e.specs[k], *prop) || *prop == "C19" || *prop == "C20" {
			keys = append(keys, k)
		}
	}
	// Modular dependency closure: the proof of a clause rests on the contracts of everything its function calls
	// (transitively). Those callees are verified here as well: their postconditions are premises of the callers, and in
	// every function involved the clauses that are assumed after being asserted (invariants, call preconditions,
	// call-site clauses, frames) and the structural guards are premises of everything else in that function.
	if !*nocache && os.Getenv("GOVC_NOCACHE") == "" && *tier != "thorough" {
		e.cache = e.openCache(filepath.Join(*verif, ".cache"))
	}
	roots := map[string]bool{}
	for _, k := range keys {
		roots[k] = true
	}
	callees := e.calleeClosure(keys)
	var ckeys []string
	for k := range callees {
		if !roots[k] {
			ckeys = append(ckeys, k)
		}
	}
	sort.Strings(ckeys)
	keys = append(keys, ckeys...)
	tg := time.Now()
	all, notes, unsup := e.generate(keys)
	genSecs := time.Since(tg).Seconds()
	premiseKind := map[string]bool{"invariant-entry": true, "invariant-preserved": true, "call-pre": true, "atcall": true, "frame": true,
		"anchor": true, "vacuity": true, "spec-error": true, "unsupported": true, "assert": true, "spawn-pre": true}
	var obls []*Obligation
	for _, o := range all {
		switch {
		case hasProp(o.Props, *prop):
			obls = append(obls, o)
		case *prop == "C19":
			// C19 is the safety sweep: it has no functional premises beyond its own obligations
		case *prop == "C20" && !specMentions(e.specs[o.Func], "C20"):
			// C20 sweeps every function for unsummarised range-over-map loops (kind map-order, tagged C20); the functional
			// premises are taken only from the functions that carry C20 clauses
		case premiseKind[o.Kind] && (roots[o.Func] || callees[o.Func]):
			o.Props = append(append([]string(nil), o.Props...), *prop)
			obls = append(obls, o)
		case roots[o.Func] && (o.Kind == "post" || o.Kind == "step" || o.Kind == "lemma"):
			// a function that carries a clause of this property is checked against its WHOLE functional contract: its
			// clauses describe one behaviour, and tagging each of them with every property it bears on proved error-prone
			o.Props = append(append([]string(nil), o.Props...), *prop)
			obls = append(obls, o)
		case o.Kind == "post" && callees[o.Func]:
			o.Props = append(append([]string(nil), o.Props...), *prop)
			obls = append(obls, o)
		}
	}
	timeout := 10
	if *tier == "thorough" {
		timeout = 120
	}
	wd, _ := os.MkdirTemp("", "govc-"+*prop)
	defer os.RemoveAll(wd)
	e.solveAll(obls, wd, timeout, 16, *tier == "thorough")

	// known findings
	var known []knownFinding
	if data, err := os.ReadFile(filepath.Join(*verif, "known_findings.json")); err == nil {
		json.Unmarshal(data, &known)
	}
	replayDir := filepath.Join(*verif, "replay", *prop)
	os.RemoveAll(replayDir)
	discharged, trivial := 0, 0
	bySolver := map[string]int{}
	solverTime := 0.0
	var violations []string
	knownHit := map[string]bool{}
	funcsSeen := map[string]bool{}
	var samples []interface{}
	// a failed frame/anchor/precondition obligation poisons the rest of its path on purpose; the vacuity guards that then
	// fail are consequences: they are reported only for functions where nothing else failed
	otherFailure := map[string]bool{}
	for _, o := range obls {
		if o.Status != "discharged" && o.Kind != "vacuity" {
			otherFailure[o.Func] = true
		}
	}
	consequences := 0
	skipped := 0
	replays := 0
	// one obligation that fails on several paths is ONE violation: its representative is the first path for which a solver
	// produced a model (otherwise the first path); the other paths are still listed as FAILED-OBLIGATION lines
	groupOf := func(id string) string {
		if i := strings.LastIndex(id, "#"); i >= 0 {
			return id[:i]
		}
		return id
	}
	repr := map[string]*Obligation{}
	for _, o := range obls {
		if o.Status == "discharged" || o.Detail == notAttempted {
			continue
		}
		g := groupOf(o.ID)
		if r, ok := repr[g]; !ok || (r.Model == "" && o.Model != "") {
			repr[g] = o
		}
	}
	for _, o := range obls {
		funcsSeen[o.Func] = true
		solverTime += o.Time
		if o.Status == "discharged" {
			discharged++
			bySolver[o.Solver]++
			if o.Trivial {
				trivial++
			}
			if len(samples) < 6 && !o.Trivial && o.Kind != "vacuity" && o.Kind != "safety" {
				samples = append(samples, map[string]interface{}{"obligation": o.ID, "kind": o.Kind, "clause": o.Spec, "where": o.Where, "solver": o.Solver, "time_s": round3(o.Time), "goal": truncate(o.Goal, 400)})
			}
			continue
		}
		// failed: known finding?
		matched := false
		for _, k := range known {
			if k.Property == *prop && k.Status == "known" {
				if ok, _ := regexp.MatchString(k.Obligation, o.ID); ok {
					matched = true
					if !knownHit[k.What] {
						knownHit[k.What] = true
						fmt.Printf("KNOWN-FINDING: property=%s %s\n", *prop, k.What)
					}
				}
			}
		}
		if matched {
			continue
		}
		if o.Kind == "vacuity" && otherFailure[o.Func] {
			consequences++
			continue
		}
		if o.Detail == notAttempted {
			skipped++
			continue
		}
		fmt.Printf("FAILED-OBLIGATION %s [%s] %s :: %s %s\n", o.ID, o.Solver, o.Where, o.Spec, o.Detail)
		if repr[groupOf(o.ID)] != o {
			continue
		}
		os.MkdirAll(replayDir, 0o755)
		rp := filepath.Join(replayDir, sanitize(o.ID)+".json")
		replays++
		noInput := writeReplay(e, o, rp, *repo, *verif, replays <= 8)
		line := fmt.Sprintf("VIOLATION property=%s replay=%s", *prop, rp)
		if noInput {
			line += " no-failing-input-found"
		}
		violations = append(violations, line)
	}
	var funcs []string
	for f := range funcsSeen {
		funcs = append(funcs, f)
	}
	sort.Strings(funcs)
	var assumptions []string
	for a := range e.assumptionsUsed {
		assumptions = append(assumptions, a)
	}
	for _, k := range keys {
		if sp := e.specs[k]; sp != nil && sp.Trusted {
			assumptions = append(assumptions, "TRUSTED CONTRACT (assumed, body not verified): "+k)
		}
	}
	assumptions = append(assumptions, dedup(notes)...)
	assumptions = append(assumptions, dedup(e.staleHints)...)
	for _, h := range dedup(e.staleHints) {
		fmt.Println("note:", h)
	}
	assumptions = append(assumptions, dedup(unsup)...)
	assumptions = append(assumptions,
		"go/packages + go/ssa (x/tools v0.29.0, naive form) build SSA faithful to the Go specification",
		"the VC generator's encoding of SSA instructions (int arithmetic has exact two-complement wrap-around semantics over mathematical integers; slices are values without aliasing; maps/structs in a Burstall-Bornat heap)",
		"SMT solver answers (z3 4.8.12, z3 5.1.0, cvc5 1.0.x): unsat from one solver with no sat from another",
	)
	sort.Strings(assumptions)
	ev := map[string]interface{}{
		"property_id": *prop, "tier": *tier, "seed": seed, "level": "proof",
		"coverage": map[string]interface{}{
			"obligations": len(obls), "discharged": discharged, "trivially_true": trivial,
			"checker_cmd": fmt.Sprintf("/verif/bin/govc check -property %s -tier %s", *prop, *tier),
			"trusted_base": []string{"go/ssa (x/tools v0.29.0)", "govc VC generator", "z3 4.8.12", "z3 5.1.0", "cvc5 1.0", "library specifications listed under assumptions"},
			"functions_under_contract": funcs, "discharged_by_solver": bySolver, "solver_time_s": round3(solverTime),
			"samples": samples, "contracts_verified": len(keys),
		},
		"assumptions": dedup(assumptions), "wall_s": round3(time.Since(t0).Seconds()), "violations": len(violations),
	}
	// trust-base validation (bounded; reported separately, never counted as discharged): the regexp closed form
	usesRegexp := false
	for a := range e.assumptionsUsed {
		if strings.Contains(a, "regexp ") && strings.Contains(a, "closed form") {
			usesRegexp = true
		}
	}
	if usesRegexp {
		bound, probes := 6, 120
		if *tier == "thorough" {
			bound, probes = 8, 600
		}
		var tb []map[string]interface{}
		for _, r := range e.sampleRegexps(bound, probes) {
			tb = append(tb, map[string]interface{}{"what": "regexp closed form vs regexp package (exhaustive over {- = a : / \\n} up to the bound) and vs its SMT rendering (probes)",
				"pattern": r.Pattern, "bound_length": r.Bound, "strings_compared": r.Strings, "smt_probes": r.SMTProbes, "mismatch": r.Mismatch, "label": "bounded"})
			if r.Mismatch != "" {
				os.MkdirAll(replayDir, 0o755)
				rp := filepath.Join(replayDir, "trustbase_regexp.json")
				data, _ := json.MarshalIndent(map[string]interface{}{"obligation": "trustbase/regexp-closed-form", "pattern": r.Pattern, "failing_input_found": true, "mismatch": r.Mismatch}, "", " ")
				os.WriteFile(rp, data, 0o644)
				violations = append(violations, fmt.Sprintf("VIOLATION property=%s replay=%s", *prop, rp))
				fmt.Printf("FAILED-OBLIGATION trustbase/regexp-closed-form :: %s\n", r.Mismatch)
			}
		}
		ev["trust_base_validation"] = tb
		ev["violations"] = len(violations)
	}
	// bounded stand-ins for functions outside the reach of the contract language (labelled bounded; never counted as discharged)
	if bs := runBoundedStandIns(*verif, *repo, *prop, *tier); len(bs) > 0 {
		var recs []map[string]interface{}
		for _, b := range bs {
			recs = append(recs, map[string]interface{}{"label": "bounded", "stands_in_for": b.What, "test": b.Run, "file": b.File, "explored": b.Summary, "failed": b.Failed, "seconds": round3(b.Secs)})
			if b.Failed {
				os.MkdirAll(replayDir, 0o755)
				rp := filepath.Join(replayDir, "bounded_"+sanitize(b.Run)+".json")
				data, _ := json.MarshalIndent(map[string]interface{}{"obligation": "bounded/" + b.Run, "stands_in_for": b.What, "failing_input_found": true,
					"note": "bounded stand-in (a Go test run against the real code); the output names the failing tree", "output": b.Output}, "", " ")
				os.WriteFile(rp, data, 0o644)
				violations = append(violations, fmt.Sprintf("VIOLATION property=%s replay=%s", *prop, rp))
				fmt.Printf("FAILED-OBLIGATION bounded/%s :: %s\n", b.Run, truncate(strings.ReplaceAll(b.Output, "\n", " | "), 300))
			}
		}
		ev["bounded_stand_ins"] = recs
		ev["violations"] = len(violations)
	}
	if len(obls) == 0 {
		fmt.Printf("VIOLATION property=%s replay=%s no-failing-input-found\n", *prop, "none")
		fmt.Println("no obligations were generated for this property (vacuous check)")
		return 1
	}
	os.MkdirAll(filepath.Join(*verif, "evidence"), 0o755)
	data, _ := json.MarshalIndent(ev, "", " ")
	os.WriteFile(filepath.Join(*verif, "evidence", *prop+".json"), data, 0o644)
	fmt.Printf("property %s: %d obligations, %d discharged, %d functions, %.1fs (generation %.1fs, %d quick side queries, %d cache hits)\n", *prop, len(obls), discharged, len(funcs), time.Since(t0).Seconds(), genSecs, e.quickQueries, bySolver["cache"])
	for _, v := range violations {
		fmt.Println(v)
	}
	if skipped > 0 && len(violations) == 0 {
		violations = append(violations, fmt.Sprintf("VIOLATION property=%s replay=none no-failing-input-found", *prop))
		fmt.Println(violations[0])
	}
	if skipped > 0 {
		fmt.Printf("(%d further undecided obligations were not attempted: fail-fast, the check had already failed)\n", skipped)
	}
	if consequences > 0 {
		fmt.Printf("(%d vacuity guards failed as a consequence of the failed obligations above: the failed assertion is assumed on the rest of its path)\n", consequences)
	}
	if len(violations) > 0 {
		return 1
	}
	return 0
}

func round3(f float64) float64 { return float64(int(f*1000)) / 1000 }

func truncate(s string, n int) string {
	if len(s) > n {
		return s[:n] + "..."
	}
	return s
}

func sanitize(s string) string {
	var b strings.Builder
	for _, r := range s {
		if r >= 'a' && r <= 'z' || r >= 'A' && r <= 'Z' || r >= '0' && r <= '9' || r == '.' || r == '-' || r == '_' {
			b.WriteRune(r)
		} else {
			b.WriteByte('_')
		}
	}
	out := b.String()
	if len(out) > 150 {
		out = out[:150]
	}
	return out
}

// writeReplay stores the failed obligation and tries to replay its counterexample on the real code.
// Returns true when no failing input could be confirmed.
func writeReplay(e *Engine, o *Obligation, path, repo, verif string, doReplay bool) bool {
	rec := map[string]interface{}{
		"obligation": o.ID, "function": o.Func, "kind": o.Kind, "clause": o.Spec, "where": o.Where, "path_blocks": o.Path,
		"solver": o.Solver, "solver_detail": o.Detail, "goal": truncate(o.Goal, 2000),
	}
	noInput := true
	if o.Model != "" {
		rec["model_inputs"] = modelSummary(o.Model, o.Inputs)
		rec["solver_output"] = truncate(o.Model, 6000)
	} else {
		rec["solver_output"] = o.Detail
	}
	if !doReplay {
		rec["replay"] = "skipped: more than 8 failed obligations in this run; the first 8 were replayed"
	} else if res, ok := tryReplay(e, o, repo, verif); ok {
		rec["replay"] = res
		if res["confirmed"] == true {
			noInput = false
			if o.Model == "" {
				rec["witness_source"] = "the solvers returned no model for this quantified obligation; the failing input comes from the replay template's registered witnesses for this obligation"
			}
		}
	}
	rec["failing_input_found"] = !noInput
	data, _ := json.MarshalIndent(rec, "", " ")
	os.WriteFile(path, data, 0o644)
	return noInput
}

var _ = ssa.NaiveForm

// calleeClosure: contracts of the functions (transitively) called from the given functions, by static call edges
// (direct calls, calls of local closures, go/defer statements, closures created inside).
func (e *Engine) calleeClosure(keys []string) map[string]bool {
	out := map[string]bool{}
	var visit func(f *ssa.Function, depth int)
	seen := map[*ssa.Function]bool{}
	visit = func(f *ssa.Function, depth int) {
		if f == nil || seen[f] || f.Blocks == nil {
			return
		}
		seen[f] = true
		for _, b := range f.Blocks {
			for _, in := range b.Instrs {
				var cal *ssa.Function
				switch x := in.(type) {
				case ssa.CallInstruction:
					cal = x.Common().StaticCallee()
					if cal == nil {
						cal = localClosureOf(x.Common().Value)
					}
				case *ssa.MakeClosure:
					cal, _ = x.Fn.(*ssa.Function)
				}
				if cal == nil {
					continue
				}
				k := e.fnKey(cal)
				if sp, ok := e.specs[k]; ok {
					if !out[k] {
						out[k] = true
						if !sp.Trusted {
							visit(cal, depth+1)
						}
					}
				} else if e.inlinable(cal) {
					visit(cal, depth+1) // contract-less helper: its callees are the caller's callees
				}
			}
		}
	}
	for _, k := range keys {
		if f := e.funcs[k]; f != nil {
			visit(f, 0)
		}
	}
	return out
}
