package main

import (
	"fmt"
	"go/constant"
	"go/types"
	"strings"

	"golang.org/x/tools/go/ssa"
)

func constantString(k *ssa.Const) string {
	if k.Value != nil && k.Value.Kind() == constant.String {
		return constant.StringVal(k.Value)
	}
	return ""
}

// specPrelude emits define-fun-rec for the recursive spec functions referenced in text (transitively) and the axioms that mention them.
func (e *Engine) specPrelude(text string) string {
	var b strings.Builder
	done := map[string]bool{}
	changed := true
	var defs []string
	for changed {
		changed = false
		for name, sf := range e.specFuncs {
			if !sf.Rec || done[name] {
				continue
			}
			if strings.Contains(text, sym(name)+" ") || strings.Contains(text, "("+sym(name)+" ") {
				done[name] = true
				d := e.recDef(sf)
				defs = append(defs, d)
				text += "\n" + d
				changed = true
			}
		}
	}
	sortStrings(defs)
	for _, d := range defs {
		b.WriteString(d + "\n")
	}
	return b.String()
}

func (e *Engine) recDef(sf *SpecFunc) string {
	// evaluate the body with parameters bound to SMT variables
	st := &State{eng: e, regs: map[ssa.Value]Val{}, heaps: map[string]string{}, ghost: map[string]Val{}, coll: &collector{}, entryVars: map[string]Val{}}
	env := &SpecEnv{st: st, vars: map[string]Val{}, pkg: e.typesPkgs[sf.Pkg]}
	var params []string
	for _, p := range sf.Params {
		t := env.resolveType(p.Type)
		v := Val{T: t}
		for _, l := range shapeOf(t) {
			n := sym(p.Name + l.Name)
			v.Terms = append(v.Terms, n)
			params = append(params, "("+n+" "+l.Sort+")")
		}
		env.vars[p.Name] = v
	}
	rt := env.resolveType(sf.Ret)
	body := ""
	err := safeSpec(func() { body = env.eval(sf.Body).Terms[0] })
	if err != nil {
		e.specErrors = append(e.specErrors, fmt.Sprintf("%s: spec func %s: %v", sf.Where, sf.Name, err))
		body = zeroOfSort(shapeOf(rt)[0].Sort)
	}
	return fmt.Sprintf("(define-fun-rec %s (%s) %s %s)", sym(sf.Name), strings.Join(params, " "), shapeOf(rt)[0].Sort, body)
}

var _ = types.Typ
