package main

// Replay of counterexample models on the real code: an in-package Go test is injected with
// `go test -overlay` (nothing is written into /repo). Each template under /verif/replay_templates
// carries a small hand-written oracle taken from the property text; it is used only to confirm a
// counterexample, never to pass a check.

import (
	"bytes"
	"context"
	"encoding/json"
	"os"
	"os/exec"
	"path/filepath"
	"strings"
	"time"
)

func replayTemplateFor(verif, fnKey string) (string, string) {
	// fnKey = "pkgname.RelName"; template file name = sanitized key + ".go"
	p := filepath.Join(verif, "replay_templates", sanitize(fnKey)+".go")
	if _, err := os.Stat(p); err == nil {
		return p, fnKey[:strings.Index(fnKey, ".")]
	}
	return "", ""
}

var pkgDirs = map[string]string{"getoptions": ".", "option": "internal/option", "sliceiterator": "internal/sliceiterator", "help": "internal/help", "dag": "dag"}

func tryReplay(e *Engine, o *Obligation, repo, verif string) (map[string]interface{}, bool) {
	tmpl, pkg := replayTemplateFor(verif, o.Func)
	if tmpl == "" {
		return nil, false
	}
	dir, ok := pkgDirs[pkg]
	if !ok {
		return nil, false
	}
	work, err := os.MkdirTemp("", "govc-replay")
	if err != nil {
		return nil, false
	}
	defer os.RemoveAll(work)
	model := parseModel(o.Model)
	mj, _ := json.Marshal(model)
	modelPath := filepath.Join(work, "model.json")
	os.WriteFile(modelPath, mj, 0o644)
	helper, err := os.ReadFile(filepath.Join(verif, "replay_templates", "_helper.go.txt"))
	if err != nil {
		return nil, false
	}
	body, err := os.ReadFile(tmpl)
	if err != nil {
		return nil, false
	}
	// the template declares its own package clause and imports; the helper is appended as a second file
	t1 := filepath.Join(work, "zz_govc_replay_test.go")
	t2 := filepath.Join(work, "zz_govc_replay_helper_test.go")
	os.WriteFile(t1, body, 0o644)
	pkgClause := "package " + pkg + "\n"
	os.WriteFile(t2, []byte(pkgClause+string(helper)), 0o644)
	abs := filepath.Join(repo, dir)
	ov := map[string]map[string]string{"Replace": {
		filepath.Join(abs, "zz_govc_replay_test.go"):        t1,
		filepath.Join(abs, "zz_govc_replay_helper_test.go"): t2,
	}}
	oj, _ := json.Marshal(ov)
	ovPath := filepath.Join(work, "overlay.json")
	os.WriteFile(ovPath, oj, 0o644)
	ctx, cancel := context.WithTimeout(context.Background(), 120*time.Second)
	defer cancel()
	cmd := exec.CommandContext(ctx, "bash", "-c", "ulimit -v 4000000; exec go test -overlay "+ovPath+" -vet=off -count=1 -timeout 60s -run '^TestGovcReplay$' .")
	cmd.Dir = abs
	cmd.Env = append(os.Environ(), "GOFLAGS=-mod=mod", "GOPROXY=off", "GOSUMDB=off", "GOTOOLCHAIN=local",
		"GOVC_MODEL="+modelPath, "GOVC_OBLIGATION="+o.Name, "GOVC_KIND="+o.Kind)
	var out bytes.Buffer
	cmd.Stdout = &out
	cmd.Stderr = &out
	runErr := cmd.Run()
	txt := out.String()
	res := map[string]interface{}{"template": tmpl, "output": truncate(txt, 4000)}
	switch {
	case strings.Contains(txt, "GOVC-REPLAY-CONFIRMED"):
		res["confirmed"] = true
	case strings.Contains(txt, "GOVC-REPLAY-NOT-REPRODUCED"):
		res["confirmed"] = false
	case ctx.Err() != nil || strings.Contains(txt, "test timed out"):
		// a hang of the real code on the model input is itself the confirmation for termination obligations
		res["confirmed"] = o.Kind == "decreases"
		res["note"] = "replay did not terminate within 60s"
	default:
		res["confirmed"] = false
		if runErr != nil {
			res["note"] = "replay harness error: " + runErr.Error()
		}
	}
	return res, true
}
