package main

// Replay of counterexample models on the real code (in-package tests injected with -overlay).

func tryReplay(e *Engine, o *Obligation, repo, verif string) (map[string]interface{}, bool) {
	return nil, false
}
