package main

// Trust-base validation (bounded, never counted as a discharged obligation): the closed form that stands in for the
// option regexps in the trusted library specification (specFindStringSubmatch) is compared on every run
//   (1) with the real regexp package, exhaustively over a small alphabet up to a length bound, and
//   (2) with the SMT text the VC generator emits for it, on a sample of those strings (evaluated by z3),
// so that neither the Go rendering below nor the SMT rendering can drift from the library unnoticed.

import (
	"fmt"
	"os"
	"os/exec"
	"regexp"
	"strings"
)

// regexClosedForm mirrors specFindStringSubmatch (same case analysis, Go strings instead of SMT terms).
func regexClosedForm(x string, dotall bool) (bool, [4]string) {
	two := strings.HasPrefix(x, "--") && len(x) > 2 && x[2] != '='
	d := 1
	if two {
		d = 2
	}
	rest := ""
	if d <= len(x) {
		rest = x[d:]
	}
	L := rest
	if ie := strings.Index(rest, "="); ie >= 0 {
		L = rest[:ie]
	}
	rem := rest[len(L):]
	match := strings.HasPrefix(x, "-") && len(L) > 0
	if !dotall {
		match = match && !strings.Contains(rem, "\n")
	}
	dashes := "-"
	if two {
		dashes = "--"
	}
	return match, [4]string{x, dashes, L, rem}
}

type samplerResult struct {
	Pattern   string
	Bound     int
	Strings   int
	Mismatch  string
	SMTProbes int
}

func (e *Engine) sampleRegexps(bound, smtProbes int) []samplerResult {
	var out []samplerResult
	alphabet := []byte{'-', '=', 'a', ':', '/', '\n'}
	for _, pat := range e.regexGlobals() {
		dotall := false
		switch pat {
		case `^(--?)([^=]+)(.*?)$`:
		case `(?s)^(--?)([^=]+)(.*?)$`, `^(--?)([^=]+)((?s).*?)$`, `^(--?)([^=]+)((?s:.*?))$`, `(?s:^(--?)([^=]+)(.*?)$)`:
			dotall = true
		default:
			continue // unrecognised patterns are opaque in the encoding: nothing is trusted about them
		}
		re, err := regexp.Compile(pat)
		res := samplerResult{Pattern: pat, Bound: bound}
		if err != nil {
			res.Mismatch = "pattern does not compile: " + err.Error()
			out = append(out, res)
			continue
		}
		var probes []string
		var rec func(prefix []byte, n int)
		rec = func(prefix []byte, n int) {
			if res.Mismatch != "" {
				return
			}
			s := string(prefix)
			res.Strings++
			m := re.FindStringSubmatch(s)
			ok, g := regexClosedForm(s, dotall)
			switch {
			case (m != nil) != ok:
				res.Mismatch = fmt.Sprintf("%q: regexp match=%v closed form match=%v", s, m != nil, ok)
			case ok && (m[0] != g[0] || m[1] != g[1] || m[2] != g[2] || m[3] != g[3]):
				res.Mismatch = fmt.Sprintf("%q: regexp groups %q closed form %q", s, m, g)
			}
			if res.Strings%97 == 0 && len(probes) < smtProbes {
				probes = append(probes, s)
			}
			if n == 0 {
				return
			}
			for _, c := range alphabet {
				rec(append(append([]byte(nil), prefix...), c), n-1)
			}
		}
		rec(nil, bound)
		if res.Mismatch == "" {
			res.SMTProbes = len(probes)
			if bad := e.probeSMTClosedForm(probes, dotall); bad != "" {
				res.Mismatch = "SMT rendering differs from the Go rendering: " + bad
			}
		}
		out = append(out, res)
	}
	return out
}

// probeSMTClosedForm evaluates the SMT closed form (built by the same code the VCs use) on concrete strings.
func (e *Engine) probeSMTClosedForm(probes []string, dotall bool) string {
	if len(probes) == 0 {
		return ""
	}
	var b strings.Builder
	b.WriteString("(set-logic ALL)\n")
	for i, p := range probes {
		ok, g := regexClosedForm(p, dotall)
		x := strLit(p)
		n := app("str.len", x)
		two := and(app("str.prefixof", strLit("--"), x), app(">", n, "2"), not(eq(app("str.at", x, "2"), strLit("="))))
		d := ite(two, "2", "1")
		rest := app("str.substr", x, d, n)
		ie := app("str.indexof", rest, strLit("="), "0")
		L := ite(app("<", ie, "0"), rest, app("str.substr", rest, "0", ie))
		rem := app("str.substr", rest, app("str.len", L), app("str.len", rest))
		match := and(app("str.prefixof", strLit("-"), x), app(">", app("str.len", L), "0"))
		if !dotall {
			match = and(match, not(app("str.contains", rem, strLit("\n"))))
		}
		want := "false"
		if ok {
			want = "true"
		}
		agree := eq(match, want)
		if ok {
			agree = and(agree, eq(ite(two, strLit("--"), strLit("-")), strLit(g[1])), eq(L, strLit(g[2])), eq(rem, strLit(g[3])))
		}
		fmt.Fprintf(&b, "(push 1)\n(assert (not %s))\n(check-sat) ; probe %d\n(pop 1)\n", agree, i)
	}
	f, err := os.CreateTemp("", "probe*.smt2")
	if err != nil {
		return ""
	}
	defer os.Remove(f.Name())
	f.WriteString(b.String())
	f.Close()
	outb, _ := exec.Command("z3-new", "-T:60", f.Name()).CombinedOutput()
	k := 0
	for _, ln := range strings.Split(string(outb), "\n") {
		ln = strings.TrimSpace(ln)
		if ln == "unsat" {
			k++
			continue
		}
		if ln == "sat" || ln == "unknown" || strings.HasPrefix(ln, "(error") {
			if k < len(probes) {
				return fmt.Sprintf("probe %q answered %s", probes[k], ln)
			}
			return "probe answered " + ln
		}
	}
	if k != len(probes) {
		return fmt.Sprintf("only %d of %d probes answered", k, len(probes))
	}
	return ""
}
