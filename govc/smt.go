package main

// SMT-LIB term construction helpers and the mapping from Go types to flattened
// tuples of SMT sorts ("shapes").

import (
	"fmt"
	"go/types"
	"strings"
)

type Leaf struct {
	Name string // suffix that identifies the leaf inside its value, e.g. "", "$len", "$arr", ".Option"
	Sort string
	Ref  bool // the leaf holds a heap reference (pointer, map, chan, func, interface)
	Tag  string // dynamic type tag of the referenced object ("" = unknown, e.g. interfaces)
	ArrRef bool   // the leaf is an array (slice backing store) of references
}

type Shape []Leaf

const (
	sInt    = "Int"
	sBool   = "Bool"
	sString = "String"
	sF64    = "F64"
)

func arrSort(idx, elem string) string { return "(Array " + idx + " " + elem + ")" }

var shapeCache = map[types.Type]Shape{}

// shapeOf flattens a Go type into SMT leaves.
func shapeOf(t types.Type) Shape {
	if s, ok := shapeCache[t]; ok {
		return s
	}
	s := shapeOf1(t)
	shapeCache[t] = s
	return s
}

// refTag names the dynamic type of the object a reference of static type t points to.
func refTag(t types.Type) string {
	switch u := t.Underlying().(type) {
	case *types.Pointer:
		return typeKey(u.Elem())
	case *types.Map:
		return typeKey(u)
	case *types.Chan:
		return typeKey(u)
	}
	return ""
}

func shapeOf1(t types.Type) Shape {
	switch u := t.Underlying().(type) {
	case *types.Basic:
		switch {
		case u.Info()&types.IsBoolean != 0:
			return Shape{{Name: "", Sort: sBool}}
		case u.Info()&types.IsInteger != 0:
			return Shape{{Name: "", Sort: sInt}}
		case u.Info()&types.IsString != 0:
			return Shape{{Name: "", Sort: sString}}
		case u.Info()&types.IsFloat != 0:
			return Shape{{Name: "", Sort: sF64}}
		case u.Kind() == types.UnsafePointer, u.Kind() == types.UntypedNil:
			return Shape{{Name: "", Sort: sInt}}
		}
		return Shape{{Name: "", Sort: sInt}}
	case *types.Pointer, *types.Map, *types.Chan, *types.Signature, *types.Interface:
		return Shape{{Name: "", Sort: sInt, Ref: true, Tag: refTag(t)}}
	case *types.Slice:
		sh := Shape{{Name: "$len", Sort: sInt}, {Name: "$nil", Sort: sBool}}
		for _, l := range shapeOf(u.Elem()) {
			sh = append(sh, Leaf{Name: "$arr" + l.Name, Sort: arrSort(sInt, l.Sort), ArrRef: l.Ref, Tag: l.Tag})
		}
		return sh
	case *types.Array:
		sh := Shape{}
		for _, l := range shapeOf(u.Elem()) {
			sh = append(sh, Leaf{Name: "$arr" + l.Name, Sort: arrSort(sInt, l.Sort)})
		}
		return sh
	case *types.Struct:
		sh := Shape{}
		for i := 0; i < u.NumFields(); i++ {
			f := u.Field(i)
			for _, l := range shapeOf(f.Type()) {
				sh = append(sh, Leaf{"." + f.Name() + l.Name, l.Sort, l.Ref, l.Tag, l.ArrRef})
			}
		}
		if len(sh) == 0 {
			// empty struct: keep one dummy leaf so that values are never empty tuples
			sh = Shape{{Name: ".$unit", Sort: sInt}}
		}
		return sh
	case *types.Tuple:
		sh := Shape{}
		for i := 0; i < u.Len(); i++ {
			for _, l := range shapeOf(u.At(i).Type()) {
				sh = append(sh, Leaf{fmt.Sprintf("#%d%s", i, l.Name), l.Sort, l.Ref, l.Tag, l.ArrRef})
			}
		}
		return sh
	}
	return Shape{{Name: "", Sort: sInt}}
}

// fieldRange returns the [lo,hi) leaf range of field i inside struct shape.
func fieldRange(st *types.Struct, i int) (int, int) {
	lo := 0
	for k := 0; k < i; k++ {
		lo += len(shapeOf(st.Field(k).Type()))
	}
	return lo, lo + len(shapeOf(st.Field(i).Type()))
}

func tupleRange(tp *types.Tuple, i int) (int, int) {
	lo := 0
	for k := 0; k < i; k++ {
		lo += len(shapeOf(tp.At(k).Type()))
	}
	return lo, lo + len(shapeOf(tp.At(i).Type()))
}

// ---- term helpers -------------------------------------------------------

func app(op string, args ...string) string {
	if len(args) == 0 {
		return op
	}
	return "(" + op + " " + strings.Join(args, " ") + ")"
}

func and(xs ...string) string {
	ys := []string{}
	for _, x := range xs {
		if x == "true" {
			continue
		}
		if x == "false" {
			return "false"
		}
		ys = append(ys, x)
	}
	if len(ys) == 0 {
		return "true"
	}
	if len(ys) == 1 {
		return ys[0]
	}
	return app("and", ys...)
}

func or(xs ...string) string {
	ys := []string{}
	for _, x := range xs {
		if x == "false" {
			continue
		}
		if x == "true" {
			return "true"
		}
		ys = append(ys, x)
	}
	if len(ys) == 0 {
		return "false"
	}
	if len(ys) == 1 {
		return ys[0]
	}
	return app("or", ys...)
}

func not(x string) string {
	if x == "true" {
		return "false"
	}
	if x == "false" {
		return "true"
	}
	if strings.HasPrefix(x, "(not ") && balancedTail(x[5:len(x)-1]) {
		return x[5 : len(x)-1]
	}
	return app("not", x)
}

func balancedTail(s string) bool {
	d := 0
	inq := false
	for i := 0; i < len(s); i++ {
		c := s[i]
		if c == '"' {
			inq = !inq
		}
		if inq {
			continue
		}
		if c == '(' {
			d++
		}
		if c == ')' {
			d--
			if d < 0 {
				return false
			}
			if d == 0 && i != len(s)-1 {
				return false
			}
		}
		if d == 0 && c == ' ' {
			return false
		}
	}
	return d == 0
}

func implies(a, b string) string {
	if a == "true" {
		return b
	}
	if a == "false" || b == "true" {
		return "true"
	}
	return app("=>", a, b)
}

func eq(a, b string) string {
	if a == b {
		return "true"
	}
	return app("=", a, b)
}

func ite(c, a, b string) string {
	if c == "true" {
		return a
	}
	if c == "false" {
		return b
	}
	if a == b {
		return a
	}
	return app("ite", c, a, b)
}

func intLit(n int64) string {
	if n < 0 {
		// avoid overflow on MinInt64
		if n == -9223372036854775808 {
			return "(- 9223372036854775808)"
		}
		return fmt.Sprintf("(- %d)", -n)
	}
	return fmt.Sprintf("%d", n)
}

// strLit encodes a Go byte string as an SMT-LIB string literal; each byte is one character.
func strLit(s string) string {
	var b strings.Builder
	b.WriteByte('"')
	for i := 0; i < len(s); i++ {
		c := s[i]
		switch {
		case c == '"':
			b.WriteString(`""`)
		case c == '\\':
			b.WriteString(`\u{5c}`)
		case c >= 0x20 && c < 0x7f:
			b.WriteByte(c)
		default:
			fmt.Fprintf(&b, `\u{%x}`, c)
		}
	}
	b.WriteByte('"')
	return b.String()
}

func sel(a, i string) string      { return app("select", a, i) }
func store(a, i, v string) string { return app("store", a, i, v) }

var zeroArrayDecls = map[string]string{}

func zeroOfSort(sort string) string {
	switch sort {
	case sInt:
		return "0"
	case sBool:
		return "false"
	case sString:
		return `""`
	case sF64:
		return "f64zero"
	}
	if strings.HasPrefix(sort, "(Array ") {
		// (Array I E)
		_, e := splitArraySort(sort)
		if strings.Contains(sort, sF64) {
			// constant arrays need a value; F64 is an uninterpreted sort, so use a declared zero array instead
			name := sym("zero:" + sort)
			zeroArrayDecls[name] = fmt.Sprintf("(declare-const %s %s)", name, sort)
			return name
		}
		return "((as const " + sort + ") " + zeroOfSort(e) + ")"
	}
	panic("zeroOfSort: " + sort)
}

func splitArraySort(sort string) (string, string) {
	// sort = "(Array X Y)" with X, Y possibly nested
	body := sort[len("(Array ") : len(sort)-1]
	d := 0
	for i := 0; i < len(body); i++ {
		switch body[i] {
		case '(':
			d++
		case ')':
			d--
		case ' ':
			if d == 0 {
				return body[:i], body[i+1:]
			}
		}
	}
	panic("bad array sort " + sort)
}

// quote an SMT symbol
func sym(s string) string {
	simple := true
	for i := 0; i < len(s); i++ {
		c := s[i]
		if !(c >= 'a' && c <= 'z' || c >= 'A' && c <= 'Z' || c >= '0' && c <= '9' || c == '_' || c == '.' || c == '$' || c == '!' || c == '~') {
			simple = false
		}
	}
	if simple && len(s) > 0 && !(s[0] >= '0' && s[0] <= '9') {
		return s
	}
	return "|" + strings.ReplaceAll(strings.ReplaceAll(s, "|", "!"), "\\", "/") + "|"
}
