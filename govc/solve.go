package main

// SMT script assembly and the solver portfolio (z3 4.8.12, z3-new 5.1.0, cvc5 1.0.x).

import (
	"bytes"
	"context"
	"fmt"
	"os"
	"os/exec"
	"path/filepath"
	"regexp"
	"sort"
	"strings"
	"sync"
	"sync/atomic"
	"time"
)

type preludeDecl struct {
	name string
	decl string
	deps []string
}

var preludeDecls = []preludeDecl{
	{"F64", "(declare-sort F64 0)", nil},
	{"f64zero", "(declare-const f64zero F64)", []string{"F64"}},
	// facts about strconv used by the proofs: neither the empty string nor the terminator "--" is a number
	{"atoi_ok", "(declare-fun atoi_ok (String) Bool)\n(assert (not (atoi_ok \"--\")))\n(assert (not (atoi_ok \"\")))", nil},
	{"atoi_val", "(declare-fun atoi_val (String) Int)", nil},
	{"pf_ok", "(declare-fun pf_ok (String) Bool)\n(assert (not (pf_ok \"--\")))\n(assert (not (pf_ok \"\")))", nil},
	{"pf_val", "(declare-fun pf_val (String) F64)", []string{"F64"}},
	{"pf_errval", "(declare-fun pf_errval (String) F64)", []string{"F64"}},
	{"str_lower", "(declare-fun str_lower (String) String)", nil},
	{"str_repeat", "(declare-fun str_repeat (String Int) String)", nil},
	{"str_join", "(declare-fun str_join ((Array Int String) Int String) String)\n" +
		"(assert (forall ((a (Array Int String)) (n Int) (sep String) (i Int)) (! (=> (and (<= 0 i) (< i n)) (str.contains (str_join a n sep) (select a i))) :pattern ((str_join a n sep) (select a i)))))", nil},
	{"fn_app_ss", "(declare-fun fn_app_ss (Int String) String)", nil},
	{"str_itoa", "(declare-fun str_itoa (Int) String)", nil},
	{"str_padright", "(declare-fun str_padright (String Int) String)\n(assert (forall ((s String) (n Int)) (! (str.prefixof s (str_padright s n)) :pattern ((str_padright s n)))))", nil},
	{"ws_count", "(declare-fun ws_count (String) Int)", nil},
	{"ws_words", "(declare-fun ws_words (String) (Array Int String))", nil},
	{"os_getenv", "(declare-fun os_getenv (String) String)", nil},
	{"path_base", "(declare-fun path_base (String) String)", nil},
	{"rune_count", "(declare-fun rune_count (String) Int)\n(assert (forall ((s String)) (! (and (<= 0 (rune_count s)) (<= (rune_count s) (str.len s)) (= (= (rune_count s) 0) (= s \"\"))) :pattern ((rune_count s)))))", nil},
	{"runes_of", "(declare-fun runes_of (String) (Array Int Int))", nil},
	{"bytes_of", "(declare-fun bytes_of (String) (Array Int Int))", nil},
	{"str_of_runes", "(declare-fun str_of_runes ((Array Int Int) Int) String)", nil},
	{"str_of_bytes", "(declare-fun str_of_bytes ((Array Int Int) Int) String)", nil},
	{"str_of_rune", "(declare-fun str_of_rune (Int) String)", nil},
	{"str_explode", "(declare-fun str_explode (String) (Array Int String))\n(assert (forall ((s String) (i Int)) (! (=> (and (<= 0 i) (< i (rune_count s))) (< 0 (str.len (select (str_explode s) i)))) :pattern ((select (str_explode s) i)))))\n(assert (forall ((s String)) (! (=> (= (rune_count s) 1) (= (select (str_explode s) 0) s)) :pattern ((str_explode s)))))", []string{"rune_count"}},
	{"str_count", "(declare-fun str_count (String String) Int)\n(assert (forall ((s String) (t String)) (! (<= 0 (str_count s t)) :pattern ((str_count s t)))))", nil},
	{"str_sort", "(declare-fun str_sort ((Array Int String) Int) (Array Int String))\n" +
		"(assert (forall ((a (Array Int String)) (n Int) (i Int)) (! (=> (and (<= 0 i) (< i n)) (exists ((j Int)) (and (<= 0 j) (< j n) (= (select (str_sort a n) i) (select a j))))) :pattern ((select (str_sort a n) i)))))\n" +
		"(assert (forall ((a (Array Int String)) (n Int) (j Int)) (! (=> (and (<= 0 j) (< j n)) (exists ((i Int)) (and (<= 0 i) (< i n) (= (select (str_sort a n) i) (select a j))))) :pattern ((str_sort a n) (select a j)))))\n" +
		"(assert (forall ((a (Array Int String)) (n Int) (i Int) (j Int)) (! (=> (and (<= 0 i) (< i j) (< j n)) (str.<= (select (str_sort a n) i) (select (str_sort a n) j))) :pattern ((select (str_sort a n) i) (select (str_sort a n) j)))))", nil},
	{"err_msg", "(declare-fun err_msg (Int) String)", nil},
	{"err_is", "(declare-fun err_is (Int Int) Bool)", nil},
	{"iface_tag", "(declare-fun iface_tag (Int) String)", nil},
	{"iface_int", "(declare-fun iface_int (Int) Int)", nil},
	{"iface_str", "(declare-fun iface_str (Int) String)", nil},
	{"ctx_done", "(declare-fun ctx_done (Int) Int)", nil},
	{"chan_cap", "(declare-fun chan_cap (Int) Int)", nil},
	{"rtype", "(declare-fun rtype (Int) String)", nil},
	{"mutex_addr", "(declare-fun mutex_addr (Int Int) Int)\n(assert (forall ((a Int) (f Int) (b Int) (g Int)) (! (=> (= (mutex_addr a f) (mutex_addr b g)) (and (= a b) (= f g))) :pattern ((mutex_addr a f) (mutex_addr b g)))))", nil},
	{"help_text", "(declare-fun help_text (Int) String)", nil},
}

var symRe = regexp.MustCompile(`[A-Za-z_][A-Za-z0-9_]*`)

var tokRe = regexp.MustCompile(`\|[^|]*\||[A-Za-z_$!][A-Za-z0-9_$!.:<>*@#%~\[\]-]*`)

// lightCmds drops quantified assumptions that share no symbol with the goal's definition closure.
// Dropping assumptions is sound: an unsat answer for the lighter script is an unsat answer for the full one.
func lightCmds(cmds []string, goal string) []string {
	declared := map[string]bool{}
	for _, c := range cmds {
		if strings.HasPrefix(c, "(declare-const ") {
			rest := c[len("(declare-const "):]
			if m := tokRe.FindString(rest); m != "" {
				declared[m] = true
			}
		}
	}
	syms := func(t string) []string {
		var out []string
		for _, m := range tokRe.FindAllString(t, -1) {
			if declared[m] {
				out = append(out, m)
			}
		}
		return out
	}
	rel := map[string]bool{}
	for _, x := range syms(goal) {
		rel[x] = true
	}
	type item struct {
		text  string
		syms  []string
		quant bool
		def   string
	}
	var items []item
	for _, c := range cmds {
		if !strings.HasPrefix(c, "(assert ") {
			continue
		}
		it := item{text: c, syms: syms(c), quant: strings.Contains(c, "(forall ") || strings.Contains(c, "(exists ")}
		if strings.HasPrefix(c, "(assert (= ") {
			if m := tokRe.FindString(c[len("(assert (= "):]); m != "" && declared[m] && strings.HasPrefix(c[len("(assert (= "):], m+" ") {
				it.def = m
			}
		}
		items = append(items, it)
	}
	for changed := true; changed; {
		changed = false
		for _, it := range items {
			if it.def != "" && rel[it.def] && !it.quant {
				for _, x := range it.syms {
					if !rel[x] {
						rel[x] = true
						changed = true
					}
				}
			}
		}
	}
	var out []string
	k := 0
	for _, c := range cmds {
		if !strings.HasPrefix(c, "(assert ") {
			out = append(out, c)
			continue
		}
		it := items[k]
		k++
		if !it.quant {
			out = append(out, c)
			continue
		}
		for _, x := range it.syms {
			if rel[x] {
				out = append(out, c)
				break
			}
		}
	}
	return out
}

// relevantCmds keeps only the assumptions within a few steps of the goal in the "shares a symbol" graph, ignoring hub
// symbols (heaps, allocation frontiers) that occur in a large share of the assumptions. Dropping assumptions is sound for
// unsat answers; the variant exists because cluttered string goals time out that are proved in a second when isolated.
func relevantCmds(cmds []string, goal string, rounds int) []string {
	declared := map[string]bool{}
	for _, c := range cmds {
		if strings.HasPrefix(c, "(declare-const ") {
			if m := tokRe.FindString(c[len("(declare-const "):]); m != "" {
				declared[m] = true
			}
		}
	}
	symsOf := func(t string) []string {
		var out []string
		seen := map[string]bool{}
		for _, m := range tokRe.FindAllString(t, -1) {
			if declared[m] && !seen[m] {
				seen[m] = true
				out = append(out, m)
			}
		}
		return out
	}
	type item struct {
		idx  int
		syms []string
	}
	var items []item
	count := map[string]int{}
	for i, c := range cmds {
		if strings.HasPrefix(c, "(assert ") {
			it := item{i, symsOf(c)}
			items = append(items, it)
			for _, x := range it.syms {
				count[x]++
			}
		}
	}
	hubLimit := len(items) / 8
	if hubLimit < 10 {
		hubLimit = 10
	}
	rel := map[string]bool{}
	for _, x := range symsOf(goal) {
		rel[x] = true
	}
	keep := map[int]bool{}
	for r := 0; r < rounds; r++ {
		for _, it := range items {
			if keep[it.idx] {
				continue
			}
			hit := false
			for _, x := range it.syms {
				if rel[x] && count[x] <= hubLimit {
					hit = true
					break
				}
			}
			if hit {
				keep[it.idx] = true
			}
		}
		for _, it := range items {
			if keep[it.idx] {
				for _, x := range it.syms {
					if count[x] <= hubLimit {
						rel[x] = true
					}
				}
			}
		}
	}
	var out []string
	for i, c := range cmds {
		if !strings.HasPrefix(c, "(assert ") || keep[i] {
			out = append(out, c)
		}
	}
	return out
}

// buildScript assembles the SMT-LIB text of an obligation.
func (e *Engine) buildScript(o *Obligation, forSolver string) string {
	cmds := o.Cmds
	if strings.HasSuffix(forSolver, "-light") {
		forSolver = strings.TrimSuffix(forSolver, "-light")
		cmds = lightCmds(cmds, o.Goal)
	}
	if strings.HasSuffix(forSolver, "-rel") {
		forSolver = strings.TrimSuffix(forSolver, "-rel")
		cmds = relevantCmds(cmds, o.Goal, 3)
	}
	body := strings.Join(cmds, "\n")
	goal := o.Goal
	text := body + "\n" + goal
	// user-defined recursive spec functions and axioms referenced by the VC
	extra := e.specPrelude(text)
	text += "\n" + extra
	used := map[string]bool{}
	for _, m := range symRe.FindAllString(text, -1) {
		used[m] = true
	}
	var b strings.Builder
	if forSolver != "cvc5" {
		b.WriteString("(set-option :produce-models true)\n")
	}
	b.WriteString("(set-logic ALL)\n")
	emitted := map[string]bool{}
	var emit func(name string)
	emit = func(name string) {
		if emitted[name] {
			return
		}
		for _, d := range preludeDecls {
			if d.name == name {
				for _, dep := range d.deps {
					emit(dep)
				}
				emitted[name] = true
				b.WriteString(d.decl + "\n")
			}
		}
	}
	for _, d := range preludeDecls {
		if used[d.name] {
			emit(d.name)
		}
	}
	// uninterpreted functions created on demand (fmt verbs, shifts)
	names := make([]string, 0, len(e.uninterps))
	for n := range e.uninterps {
		names = append(names, n)
	}
	sort.Strings(names)
	for _, n := range names {
		if strings.Contains(text, e.uninterps[n].sym) {
			if !emitted["F64"] && strings.Contains(e.uninterps[n].decl, "F64") {
				emit("F64")
			}
			b.WriteString(e.uninterps[n].decl + "\n")
		}
	}
	{
		var zs []string
		for n := range zeroArrayDecls {
			if strings.Contains(text, n) {
				zs = append(zs, n)
			}
		}
		sort.Strings(zs)
		for _, n := range zs {
			if !emitted["F64"] {
				emit("F64")
			}
			b.WriteString(zeroArrayDecls[n] + "\n")
		}
	}
	b.WriteString(extra)
	if forSolver == "z3-prelude" {
		return b.String()
	}
	b.WriteString(body)
	b.WriteString("\n")
	if o.Expect == "sat" {
		b.WriteString("(check-sat)\n")
		return b.String()
	}
	b.WriteString("(assert (not " + goal + "))\n(check-sat)\n")
	if forSolver != "cvc5" {
		b.WriteString("(get-model)\n")
	}
	return b.String()
}

type uninterp struct {
	sym  string
	decl string
}

func (e *Engine) uninterp(name string, argSorts []string, ret string) string {
	if e.uninterps == nil {
		e.uninterps = map[string]uninterp{}
	}
	if u, ok := e.uninterps[name]; ok {
		return u.sym
	}
	s := sym(name)
	e.uninterps[name] = uninterp{s, fmt.Sprintf("(declare-fun %s (%s) %s)", s, strings.Join(argSorts, " "), ret)}
	return s
}

// shiftFn returns an uninterpreted array shift with its defining axiom: shift(a,k)[i] = a[i+k].
func (e *Engine) shiftFn(elemSort string) string {
	name := "shift<" + elemSort + ">"
	if e.uninterps == nil {
		e.uninterps = map[string]uninterp{}
	}
	if u, ok := e.uninterps[name]; ok {
		return u.sym
	}
	s := sym(name)
	as := arrSort(sInt, elemSort)
	decl := fmt.Sprintf("(declare-fun %s (%s Int) %s)\n(assert (forall ((a %s) (k Int) (i Int)) (! (= (select (%s a k) i) (select a (+ i k))) :pattern ((select (%s a k) i)))))", s, as, as, as, s, s)
	e.uninterps[name] = uninterp{s, decl}
	return s
}

// proveQuick asks one solver, synchronously and with a short time limit, whether goal follows from the
// current path assumptions. Used only to simplify later terms (sound either way).
func (s *State) proveQuick(goal string) bool {
	if s.dead {
		return false
	}
	o := &Obligation{Cmds: s.cmds, Goal: goal, Expect: "unsat"}
	var qk string
	if c := s.eng.cache; c != nil {
		qk = c.keyOf("quick", s.cmds, goal)
		if c.known["Q+"+qk] {
			return true
		}
		if c.known["Q-"+qk] {
			return false
		}
	}
	script := s.eng.buildScript(o, "cvc5")
	f, err := os.CreateTemp("", "quick*.smt2")
	if err != nil {
		return false
	}
	defer os.Remove(f.Name())
	f.WriteString(script)
	f.Close()
	s.eng.quickQueries++
	r := runSolver(context.Background(), solverCfg{"z3", func(f string, t int) []string { return []string{"z3", "-t:400", f} }}, f.Name(), 2)
	if c := s.eng.cache; c != nil && (r.answer == "unsat" || r.answer == "sat") {
		// only definite answers are remembered (a timeout may turn into an answer on a quieter machine; either way the
		// result only decides whether a wrap-around term is simplified, which is sound in both cases)
		if r.answer == "unsat" {
			c.note("Q+" + qk)
		} else {
			c.note("Q-" + qk)
		}
	}
	return r.answer == "unsat"
}

type solverResult struct {
	solver string
	answer string // unsat sat unknown timeout error
	out    string
	secs   float64
}

type solverCfg struct {
	name string
	argv func(file string, timeout int) []string
}

var solvers = []solverCfg{
	{"z3-new", func(f string, t int) []string { return []string{"z3-new", fmt.Sprintf("-T:%d", t), f} }},
	{"cvc5", func(f string, t int) []string {
		return []string{"cvc5", "--strings-exp", "--produce-models", fmt.Sprintf("--tlimit=%d", t*1000), f}
	}},
	{"z3", func(f string, t int) []string { return []string{"z3", fmt.Sprintf("-T:%d", t), f} }},
	// cvc5 with enumerative quantifier instantiation: decides forall/exists chains (membership preserved by append/sort) the others miss
	{"cvc5-enum", func(f string, t int) []string {
		return []string{"cvc5", "--strings-exp", "--enum-inst", "--produce-models", fmt.Sprintf("--tlimit=%d", t*1000), f}
	}},
}

// procSlots bounds the number of solver processes running at the same time (CPU contention turns
// easy proofs into timeouts, i.e. into flaky failures).
var procSlots = make(chan struct{}, 16)

func runSolver(ctx context.Context, cfg solverCfg, file string, timeout int) solverResult {
	select {
	case procSlots <- struct{}{}:
		defer func() { <-procSlots }()
	case <-ctx.Done():
		return solverResult{cfg.name, "cancelled", "", 0}
	}
	if ctx.Err() != nil {
		return solverResult{cfg.name, "cancelled", "", 0}
	}
	argv := cfg.argv(file, timeout)
	cctx, cancel := context.WithTimeout(ctx, time.Duration(timeout+2)*time.Second)
	defer cancel()
	cmd := exec.CommandContext(cctx, argv[0], argv[1:]...)
	var out bytes.Buffer
	cmd.Stdout = &out
	cmd.Stderr = &out
	t0 := time.Now()
	_ = cmd.Run()
	secs := time.Since(t0).Seconds()
	txt := out.String()
	first := ""
	for _, ln := range strings.Split(txt, "\n") {
		ln = strings.TrimSpace(ln)
		if ln == "" || strings.HasPrefix(ln, "WARNING") {
			continue
		}
		first = ln
		break
	}
	ans := "error"
	switch {
	case first == "unsat":
		ans = "unsat"
	case first == "sat":
		ans = "sat"
	case first == "unknown":
		ans = "unknown"
	case strings.Contains(first, "timeout") || cctx.Err() != nil:
		ans = "timeout"
	}
	return solverResult{cfg.name, ans, txt, secs}
}

// isPrefix reports whether a is a prefix of b (compared at the boundary and a few probes; cmds are append-only logs).
func isPrefix(a, b []string) bool {
	if len(a) > len(b) {
		return false
	}
	if len(a) == 0 {
		return true
	}
	for _, k := range []int{len(a) - 1, len(a) / 2, 0} {
		if a[k] != b[k] {
			return false
		}
	}
	return true
}

// solveBatch runs a chain of obligations (each one's assumptions extend the previous one's) in ONE incremental
// z3 process with push/pop. Only unsat answers are taken; everything else is left to the per-obligation portfolio.
func (e *Engine) solveBatch(bi int, batch []*Obligation, workdir string) {
	var all strings.Builder
	for _, o := range batch {
		all.WriteString(o.Goal)
		all.WriteString("\n")
	}
	last := batch[len(batch)-1]
	pre := e.buildScript(&Obligation{Cmds: append(append([]string(nil), last.Cmds...), all.String()), Goal: "true", Expect: "sat"}, "z3-prelude")
	var b strings.Builder
	b.WriteString("(set-option :timeout 1500)\n")
	b.WriteString(pre)
	done := 0
	for _, o := range batch {
		for _, c := range o.Cmds[done:] {
			b.WriteString(c)
			b.WriteString("\n")
		}
		done = len(o.Cmds)
		b.WriteString("(push 1)\n(assert (not " + o.Goal + "))\n(check-sat)\n(pop 1)\n")
	}
	f := filepath.Join(workdir, fmt.Sprintf("batch%04d.smt2", bi))
	os.WriteFile(f, []byte(b.String()), 0o644)
	t0 := time.Now()
	ctx, cancel := context.WithTimeout(context.Background(), time.Duration(2*len(batch)+5)*time.Second)
	defer cancel()
	cmd := exec.CommandContext(ctx, "z3-new", f)
	var out bytes.Buffer
	cmd.Stdout = &out
	cmd.Stderr = &out
	_ = cmd.Run()
	secs := time.Since(t0).Seconds()
	var answers []string
	for _, ln := range strings.Split(out.String(), "\n") {
		ln = strings.TrimSpace(ln)
		if ln == "unsat" || ln == "sat" || ln == "unknown" || strings.HasPrefix(ln, "(error") {
			answers = append(answers, ln)
		}
	}
	for i, o := range batch {
		if i < len(answers) && answers[i] == "unsat" {
			o.Status = "discharged"
			o.Solver = "z3-new"
			o.Time = secs / float64(len(batch))
			o.Detail = "z3-new=unsat(incremental batch)"
			o.File = f
		}
	}
}

// solveAll discharges obligations in parallel.
const failFastLimit = 24
const notAttempted = "not attempted: the check had already failed (fail-fast after 24 failed obligations)"

func (e *Engine) solveAll(obls []*Obligation, workdir string, timeout int, jobs int, thorough bool) {
	os.MkdirAll(workdir, 0o755)
	sem := make(chan struct{}, jobs)
	var wg sync.WaitGroup
	// verdict cache: identical queries that were discharged before are not solved again
	keysOf := map[*Obligation]string{}
	if e.cache != nil {
		var kw sync.WaitGroup
		var kmu sync.Mutex
		for _, o := range obls {
			if o.Trivial || o.Expect != "unsat" || o.Kind == "anchor" || o.Kind == "spec-error" || o.Kind == "unsupported" || o.Kind == "vacuity" {
				continue
			}
			kw.Add(1)
			go func(o *Obligation) {
				defer kw.Done()
				sem <- struct{}{}
				k := e.cache.key(o)
				<-sem
				kmu.Lock()
				keysOf[o] = k
				kmu.Unlock()
			}(o)
		}
		kw.Wait()
		if os.Getenv("GOVC_TIMING") != "" {
			fmt.Fprintf(os.Stderr, "timing: cache keys for %d obligations\n", len(keysOf))
		}
		if !thorough {
			for o, k := range keysOf {
				if e.cache.known[k] {
					o.Status = "discharged"
					o.Solver = "cache"
					o.Detail = "identical query discharged in an earlier run (verdict cache)"
				}
			}
		}
		defer func() {
			for o, k := range keysOf {
				if o.Status == "discharged" && o.Solver != "cache" {
					e.cache.note(k)
				}
			}
			e.cache.flush()
		}()
	}
	var failedCount int32
	// pass 1: chains of obligations along one path are sent to one incremental z3 process each
	if !thorough {
		var batches [][]*Obligation
		var cur []*Obligation
		for _, o := range obls {
			if o.Trivial || o.Expect != "unsat" || o.Kind == "anchor" || o.Kind == "spec-error" || o.Kind == "unsupported" || o.Kind == "vacuity" || o.Status == "discharged" {
				continue
			}
			if len(cur) > 0 && (!isPrefix(cur[len(cur)-1].Cmds, o.Cmds) || len(cur) >= 40) {
				batches = append(batches, cur)
				cur = nil
			}
			cur = append(cur, o)
		}
		if len(cur) > 0 {
			batches = append(batches, cur)
		}
		var bw sync.WaitGroup
		var batchUndecided int32
		for bi, batch := range batches {
			bw.Add(1)
			go func(bi int, batch []*Obligation) {
				defer bw.Done()
				sem <- struct{}{}
				defer func() { <-sem }()
				if atomic.LoadInt32(&batchUndecided) >= 200 {
					return // fail-fast: the check has already failed; the rest goes to the portfolio pass, which stops early too
				}
				e.solveBatch(bi, batch, workdir)
				for _, o := range batch {
					if o.Status != "discharged" {
						atomic.AddInt32(&batchUndecided, 1)
					}
				}
			}(bi, batch)
		}
		bw.Wait()
	}
	// vacuity guards: one representative per (function, point) is enough; members are tried in turn until one is not unsat
	groups := map[string][]int{}
	var groupOrder []string
	for i, o := range obls {
		if o.Kind == "vacuity" && !o.Trivial {
			k := o.Func + "/" + o.Name
			if _, ok := groups[k]; !ok {
				groupOrder = append(groupOrder, k)
			}
			groups[k] = append(groups[k], i)
		}
	}
	for _, k := range groupOrder {
		idxs := groups[k]
		wg.Add(1)
		go func(idxs []int) {
			defer wg.Done()
			sem <- struct{}{}
			defer func() { <-sem }()
			for n, i := range idxs {
				var vk string
				if e.cache != nil {
					vk = "V+" + e.cache.keyOf("vacuity", obls[i].Cmds, "")
					if !thorough && e.cache.known[vk] {
						obls[i].Status, obls[i].Solver, obls[i].Detail = "discharged", "cache", "identical reachability query answered in an earlier run (verdict cache)"
					}
				}
				if obls[i].Status != "discharged" {
					e.solveOne(i, obls[i], workdir, timeout, thorough)
					if obls[i].Status == "discharged" && e.cache != nil {
						e.cache.note(vk) // a solver answered sat (the point is reachable) or none found a contradiction within the budget
					}
				}
				if obls[i].Status == "discharged" {
					for _, j := range idxs[n+1:] {
						obls[j].Status = "discharged"
						obls[j].Solver = "group"
						obls[j].Detail = "the same point is reachable on another path"
					}
					return
				}
			}
		}(idxs)
	}
	for i, o := range obls {
		if o.Kind == "vacuity" && !o.Trivial {
			continue
		}
		if o.Trivial {
			o.Status = "discharged"
			o.Solver = "trivial"
			continue
		}
		if o.Status == "discharged" {
			continue // settled by the incremental pass
		}
		if o.Kind == "anchor" || o.Kind == "spec-error" || o.Kind == "unsupported" {
			o.Status = "failed"
			o.Solver = "none"
			continue
		}
		wg.Add(1)
		go func(i int, o *Obligation) {
			defer wg.Done()
			sem <- struct{}{}
			defer func() { <-sem }()
			// fail-fast (quick tier): once failFastLimit obligations have failed the verdict of the check is settled; the
			// remaining undecided obligations are not attempted (reported as such, never as discharged)
			if !thorough && atomic.LoadInt32(&failedCount) >= failFastLimit {
				o.Status, o.Solver, o.NoModel = "failed", "none", false
				o.Detail = notAttempted
				return
			}
			e.solveOne(i, o, workdir, timeout, thorough)
			if o.Status != "discharged" {
				atomic.AddInt32(&failedCount, 1)
			}
		}(i, o)
	}
	wg.Wait()
	// second chance against load-induced timeouts: a handful of obligations that no solver decided (no model) are tried
	// again, a few at a time, with three times the budget, once everything else is finished
	if !thorough {
		var again []int
		for i, o := range obls {
			if o.Status == "failed" && o.NoModel && o.Expect == "unsat" && o.Kind != "anchor" && o.Kind != "spec-error" && o.Kind != "unsupported" {
				again = append(again, i)
			}
		}
		if len(again) > 0 && len(again) <= 8 {
			sem2 := make(chan struct{}, 4)
			var w2 sync.WaitGroup
			for _, i := range again {
				w2.Add(1)
				go func(i int) {
					defer w2.Done()
					sem2 <- struct{}{}
					defer func() { <-sem2 }()
					first := obls[i].Detail
					obls[i].Detail = ""
					obls[i].NoModel = false
					e.solveOne(i, obls[i], workdir, 2*timeout, false)
					obls[i].Detail = "retry after: " + first + " || " + obls[i].Detail
				}(i)
			}
			w2.Wait()
		}
	}
	// vacuity guards: a loop head / precondition must be reachable on SOME path; infeasible paths are normal
	okGroup := map[string]bool{}
	for _, o := range obls {
		if o.Kind == "vacuity" && o.Status == "discharged" {
			okGroup[o.Func+"/"+o.Name] = true
		}
	}
	for _, o := range obls {
		if o.Kind == "vacuity" && o.Status != "discharged" && okGroup[o.Func+"/"+o.Name] {
			o.Status = "discharged"
			o.Solver = "other-path"
			o.Detail = "this path is infeasible; the same point is reachable on another path"
		}
	}
}

func (e *Engine) solveOne(i int, o *Obligation, workdir string, timeout int, thorough bool) {
	fz := filepath.Join(workdir, fmt.Sprintf("o%04d.z3.smt2", i))
	fc := filepath.Join(workdir, fmt.Sprintf("o%04d.cvc5.smt2", i))
	os.WriteFile(fz, []byte(e.buildScript(o, "z3")), 0o644)
	os.WriteFile(fc, []byte(e.buildScript(o, "cvc5")), 0o644)
	fzl := filepath.Join(workdir, fmt.Sprintf("o%04d.z3l.smt2", i))
	fcl := filepath.Join(workdir, fmt.Sprintf("o%04d.cvc5l.smt2", i))
	os.WriteFile(fzl, []byte(e.buildScript(o, "z3-light")), 0o644)
	os.WriteFile(fcl, []byte(e.buildScript(o, "cvc5-light")), 0o644)
	fcr := filepath.Join(workdir, fmt.Sprintf("o%04d.cvc5r.smt2", i))
	if len(o.Cmds) > 60 {
		os.WriteFile(fcr, []byte(e.buildScript(o, "cvc5-rel")), 0o644)
	}
	o.File = fz
	t0 := time.Now()
	defer func() { o.Time = time.Since(t0).Seconds() }()
	fileFor := func(c solverCfg) string {
		if strings.HasPrefix(c.name, "cvc5") {
			return fc
		}
		return fz
	}
	if o.Expect == "sat" {
		// vacuity guard: fails only when some solver proves the assumptions contradictory
		ctx, cancel := context.WithCancel(context.Background())
		defer cancel()
		ch := make(chan solverResult, 2)
		for _, c := range solvers[:2] {
			go func(c solverCfg) { ch <- runSolver(ctx, c, fileFor(c), 2) }(c)
		}
		o.Status = "discharged"
		o.Solver = "not-unsat"
		for k := 0; k < 2; k++ {
			r := <-ch
			if r.answer == "unsat" {
				o.Status = "failed"
				o.Solver = r.solver
				o.Detail = "assumptions are contradictory (vacuous contract)"
				return
			}
			if r.answer == "sat" {
				o.Solver = r.solver
				return
			}
		}
		return
	}
	// stage A: z3-new alone (it settles most obligations in well under a second)
	var results []solverResult
	var unsatBy, satBy *solverResult
	if !thorough {
		ta := timeout
		if ta > 5 {
			ta = 5
		}
		r := runSolver(context.Background(), solvers[0], fz, ta)
		results = append(results, r)
		rr := r
		if r.answer == "unsat" {
			unsatBy = &rr
		}
		if r.answer == "sat" {
			satBy = &rr
		}
	}
	if unsatBy == nil && satBy == nil {
		// stage B: the other solvers and the light variants race; the first definitive answer wins
		// (thorough: all are heard, a disagreement is an error)
		ctx, cancel := context.WithCancel(context.Background())
		ch := make(chan solverResult, 8)
		n := 0
		for _, c := range solvers {
			if !thorough && c.name == "z3-new" {
				continue
			}
			n++
			go func(c solverCfg) { ch <- runSolver(ctx, c, fileFor(c), timeout) }(c)
		}
		if len(o.Cmds) > 60 {
			n++
			go func() {
				r := runSolver(ctx, solvers[1], fcr, timeout)
				r.solver += "-rel"
				if r.answer != "unsat" && r.answer != "cancelled" {
					r.answer = "rel-" + r.answer
				}
				ch <- r
			}()
		}
		if len(o.Cmds) > 120 {
			for _, c := range []solverCfg{solvers[0], solvers[1]} {
				n++
				go func(c solverCfg) {
					f := fzl
					if c.name == "cvc5" {
						f = fcl
					}
					r := runSolver(ctx, c, f, timeout)
					r.solver += "-light"
					if r.answer != "unsat" && r.answer != "cancelled" {
						r.answer = "light-" + r.answer
					}
					ch <- r
				}(c)
			}
		}
		var grace <-chan time.Time
		for k := 0; k < n; k++ {
			var r solverResult
			select {
			case r = <-ch:
			case <-grace:
				// thorough: after the first definitive answer the other solvers get 15 s to agree or disagree
				cancel()
				grace = nil
				r = <-ch
			}
			if r.answer == "cancelled" {
				continue
			}
			results = append(results, r)
			rr := r
			if r.answer == "unsat" && unsatBy == nil {
				unsatBy = &rr
				if !thorough {
					break
				}
				if grace == nil {
					grace = time.After(15 * time.Second)
				}
			}
			if r.answer == "sat" && satBy == nil {
				satBy = &rr
				if !thorough {
					break
				}
				if grace == nil {
					grace = time.After(15 * time.Second)
				}
			}
		}
		cancel()
	}
	var summary []string
	for _, r := range results {
		summary = append(summary, fmt.Sprintf("%s=%s(%.2fs)", r.solver, r.answer, r.secs))
	}
	o.Detail = strings.TrimSpace(o.Detail + " " + strings.Join(summary, " "))
	switch {
	case unsatBy != nil && satBy != nil:
		o.Status = "failed"
		o.Solver = "disagreement"
		o.Model = satBy.out
	case unsatBy != nil:
		o.Status = "discharged"
		o.Solver = unsatBy.solver
	case satBy != nil:
		o.Status = "failed"
		o.Solver = satBy.solver
		o.Model = satBy.out
		if satBy.solver == "cvc5" {
			// ask z3 for a model as well (cvc5 scripts carry no get-model)
			r := runSolver(context.Background(), solvers[0], fz, 5)
			if r.answer == "sat" {
				o.Model = r.out
			}
		}
	default:
		o.Status = "failed"
		o.Solver = "none"
		o.NoModel = true
	}
}
