package main

// Evaluation of contract expressions into SMT terms in the context of a symbolic state.

import (
	"fmt"
	"go/constant"
	"go/types"
	"strings"

	"golang.org/x/tools/go/ssa"
)

// SetT is the spec-only type "set of K" (Array K Bool).
type SetT struct{ Key types.Type }

func (t *SetT) Underlying() types.Type { return t }
func (t *SetT) String() string         { return "set<" + t.Key.String() + ">" }

type SpecEnv struct {
	st   *State
	cur  *Snapshot // nil: current state
	old  *Snapshot // target of old()
	iter *Snapshot // target of old_iter()
	pre  *Snapshot // target of old_loop(): state before the innermost loop was entered
	vars map[string]Val
	pkg  *types.Package
	fn   *ssa.Function
	depth int
	qd   int   // quantifier nesting depth (bound variables are named deterministically so that equal formulas are syntactically equal)
	lp   *Loop // loop whose contract is being evaluated (before its frame is pushed)
}

func (e *SpecEnv) with(name string, v Val) *SpecEnv {
	n := *e
	n.vars = make(map[string]Val, len(e.vars)+1)
	for k, x := range e.vars {
		n.vars[k] = x
	}
	n.vars[name] = v
	return &n
}

func (e *SpecEnv) at(sn *Snapshot) *SpecEnv {
	n := *e
	n.cur = sn
	return &n
}

type specErr struct{ msg string }

func specFail(format string, a ...interface{}) {
	panic(specErr{fmt.Sprintf(format, a...)})
}

var tInt = types.Typ[types.Int]
var tBool = types.Typ[types.Bool]
var tString = types.Typ[types.String]

func mkInt(t string) Val  { return Val{T: tInt, Terms: []string{t}} }
func mkBool(t string) Val { return Val{T: tBool, Terms: []string{t}} }
func mkStr(t string) Val  { return Val{T: tString, Terms: []string{t}} }

func isRefType(t types.Type) bool {
	switch t.Underlying().(type) {
	case *types.Pointer, *types.Map, *types.Chan, *types.Signature, *types.Interface:
		return true
	}
	if b, ok := t.Underlying().(*types.Basic); ok && (b.Kind() == types.UntypedNil || b.Kind() == types.UnsafePointer) {
		return true
	}
	return false
}

func isSlice(t types.Type) bool  { _, ok := t.Underlying().(*types.Slice); return ok }
func isString(t types.Type) bool { b, ok := t.Underlying().(*types.Basic); return ok && b.Info()&types.IsString != 0 }
func isIntT(t types.Type) bool   { b, ok := t.Underlying().(*types.Basic); return ok && b.Info()&types.IsInteger != 0 }
func isBoolT(t types.Type) bool  { b, ok := t.Underlying().(*types.Basic); return ok && b.Info()&types.IsBoolean != 0 }

// resolveType turns a type text from a contract into a Go type.
func (e *SpecEnv) resolveType(txt string) types.Type {
	switch txt {
	case "int":
		return tInt
	case "bool":
		return tBool
	case "string":
		return tString
	case "float64":
		return types.Typ[types.Float64]
	case "ref":
		return types.Typ[types.UnsafePointer]
	case "error":
		return types.Universe.Lookup("error").Type()
	case "any":
		return types.NewInterfaceType(nil, nil)
	}
	if strings.HasPrefix(txt, "map[string]") {
		return types.NewMap(tString, e.resolveType(txt[len("map[string]"):]))
	}
	if strings.HasPrefix(txt, "*") {
		return types.NewPointer(e.resolveType(txt[1:]))
	}
	if strings.HasPrefix(txt, "[]") {
		return types.NewSlice(e.resolveType(txt[2:]))
	}
	if strings.HasPrefix(txt, "set<") {
		return &SetT{e.resolveType(txt[4 : len(txt)-1])}
	}
	pkg := e.pkg
	name := txt
	if k := strings.Index(txt, "."); k >= 0 {
		pn := txt[:k]
		name = txt[k+1:]
		pkg = e.st.eng.pkgByName(pn, e.pkg)
		if pkg == nil {
			specFail("unknown package %q in type %q", pn, txt)
		}
	}
	obj := pkg.Scope().Lookup(name)
	if tn, ok := obj.(*types.TypeName); ok {
		return tn.Type()
	}
	specFail("unknown type %q", txt)
	return nil
}

func (e *SpecEnv) lookupTypeName(name string) types.Type {
	if obj, ok := e.pkg.Scope().Lookup(name).(*types.TypeName); ok {
		return obj.Type()
	}
	return nil
}

// evalBool evaluates e as a formula.
func (env *SpecEnv) evalBool(x *SExpr) string {
	v := env.eval(x)
	if len(v.Terms) != 1 || !isBoolT(v.T) {
		specFail("expression %s is not boolean (type %v)", x, v.T)
	}
	return v.Terms[0]
}

func (env *SpecEnv) eval(x *SExpr) Val {
	switch x.Op {
	case "int":
		return mkInt(intLitStr(x.Name))
	case "str":
		c := x.Name
		return Val{T: tString, Terms: []string{strLit(x.Name)}, Const: &c}
	case "bool":
		return mkBool(x.Name)
	case "nil":
		return Val{T: types.Typ[types.UntypedNil], Terms: []string{"0"}}
	case "ident":
		return env.evalIdent(x.Name)
	case "sel":
		return env.evalSel(x)
	case "index":
		return env.evalIndex(x)
	case "slice":
		return env.evalSlice(x)
	case "un":
		return env.evalUn(x)
	case "bin":
		return env.evalBin(x)
	case "forall", "exists":
		ne := env
		var binders []string
		var guards []string
		for _, v := range x.Vars {
			t := env.resolveType(v.Type)
			sh := shapeOf(t)
			if len(sh) != 1 {
				specFail("quantified variable %s must have a single-leaf type", v.Name)
			}
			nm := sym(fmt.Sprintf("%s?q%d", v.Name, ne.qd))
			binders = append(binders, "("+nm+" "+sh[0].Sort+")")
			ne = ne.with(v.Name, Val{T: t, Terms: []string{nm}})
			ne.qd++
			if isIntT(t) {
				// Go ints are bounded; quantify over mathematical integers (superset) - no guard needed
			}
			if sh[0].Ref {
				// references range over the objects that exist in the state the formula is evaluated in
				al := env.st.alloc
				if env.cur != nil && env.cur.Alloc != "" {
					al = env.cur.Alloc
				}
				guards = append(guards, app("<=", "0", nm), app("<", nm, al))
				if sh[0].Tag != "" {
					env.st.emitAllocSummary()
					// typed quantification: only objects of the named dynamic type
					guards = append(guards, or(eq(nm, "0"), eq(app("rtype", nm), strLit(sh[0].Tag))))
				}
			}
		}
		body := ne.evalBool(x.Args[0])
		if x.Op == "forall" {
			return mkBool("(forall (" + strings.Join(binders, " ") + ") " + implies(and(guards...), body) + ")")
		}
		return mkBool("(exists (" + strings.Join(binders, " ") + ") " + and(append(guards, body)...) + ")")
	case "call":
		return env.evalCall(x)
	}
	specFail("cannot evaluate %s", x)
	return Val{}
}

func intLitStr(s string) string {
	return s
}

func (env *SpecEnv) evalIdent(name string) Val {
	if v, ok := env.vars[name]; ok {
		return v
	}
	// variable captured by a closure (free variable: a pointer to the captured variable)
	if p, ok := env.vars["&"+name]; ok {
		return env.loadPtr(p)
	}
	// hidden loop state: $idx (range-over-slice index), $seen (set of keys already visited by a range-over-map)
	if name == "$ranged" {
		// the slice a range-over-slice loop iterates over (evaluated once before the loop)
		var cands []*Loop
		if env.lp != nil {
			cands = append(cands, env.lp)
		}
		for i := len(env.st.loops) - 1; i >= 0; i-- {
			cands = append(cands, env.st.loops[i].L)
		}
		for _, l := range cands {
			if l.RangeIdx != nil && l.RangeLen != nil {
				if call, ok := l.RangeLen.(*ssa.Call); ok && len(call.Call.Args) == 1 {
					if v, ok := env.st.regs[call.Call.Args[0]]; ok {
						return v
					}
				}
			}
		}
		specFail("$ranged used outside a range-over-slice loop")
	}
	if name == "$idx" || name == "$seen" || name == "$count" {
		var cands []*Loop
		if env.lp != nil {
			cands = append(cands, env.lp)
		}
		for i := len(env.st.loops) - 1; i >= 0; i-- {
			cands = append(cands, env.st.loops[i].L)
		}
		for _, l := range cands {
			if name == "$idx" && l.RangeIdx != nil {
				cells := env.st.cells
				if env.cur != nil {
					cells = env.cur.Cells
				}
				if v, ok := cells[l.RangeIdx]; ok {
					return v
				}
				return mkInt("(- 1)")
			}
			if (name == "$seen" || name == "$count") && l.MapRange != nil {
				iters := env.st.iters
				if env.cur != nil {
					iters = env.cur.Iters
				}
				if it, ok := iters[l.MapRange]; ok {
					if name == "$count" {
						return mkInt(it.Count)
					}
					return Val{T: &SetT{it.MapT.Key()}, Terms: []string{it.Seen}}
				}
			}
		}
		specFail("%s used outside a matching range loop", name)
	}
	// ghost state
	if strings.HasPrefix(name, "$") {
		var g map[string]Val
		if env.cur != nil {
			g = env.cur.Ghost
		} else {
			g = env.st.ghost
		}
		if v, ok := g[name]; ok {
			return v
		}
		if ct, ok := env.st.eng.chanGhostT[name]; ok || strings.HasPrefix(name, "$spawns_") {
			if !ok {
				ct = tInt
			}
			if env.cur != nil {
				v := Val{T: ct}
				for _, l := range shapeOf(ct) {
					v.Terms = append(v.Terms, env.st.ghostConst(name, l))
				}
				return v
			}
			return env.st.ghostGet(name, ct)
		}
		if tt, ok := env.st.eng.ghostDecls[name]; ok {
			t := env.resolveTypeIn(tt, env.st.eng.ghostPkg[name])
			if env.cur != nil {
				// untouched before the snapshot: the entry constant
				v := Val{T: t}
				for _, l := range shapeOf(t) {
					v.Terms = append(v.Terms, env.st.ghostConst(name, l))
				}
				return v
			}
			return env.st.ghostGet(name, t)
		}
		specFail("unknown ghost variable %s", name)
	}
	// parameters evaluated in the entry state
	if env.cur != nil && env.cur == env.st.entry {
		if v, ok := env.st.entryVars[name]; ok {
			return v
		}
	}
	// named local of the function
	if env.fn != nil {
		scope := env.lp
		if scope == nil && len(env.st.loops) > 0 {
			scope = env.st.loops[len(env.st.loops)-1].L
		}
		if a := env.st.eng.localByNameAt(env.fn, name, scope); a != nil {
			var cells map[*ssa.Alloc]Val
			if env.cur != nil {
				cells = env.cur.Cells
			} else {
				cells = env.st.cells
			}
			if v, ok := cells[a]; ok {
				return v
			}
			if r, ok := env.st.regs[a]; ok && r.Loc == nil {
				// heap-allocated local: load through the reference
				return env.loadPtr(r)
			}
			return zeroVal(derefType(a.Type()))
		}
	}
	// package-level constant or variable
	if obj := env.pkg.Scope().Lookup(name); obj != nil {
		return env.evalObj(obj)
	}
	specFail("unknown identifier %q", name)
	return Val{}
}

func (env *SpecEnv) evalObj(obj types.Object) Val {
	switch o := obj.(type) {
	case *types.Const:
		return constVal(o.Type(), o.Val())
	case *types.Var:
		return env.st.globalVal(o)
	}
	specFail("cannot use %s in a contract", obj)
	return Val{}
}

func constVal(t types.Type, c constant.Value) Val {
	switch c.Kind() {
	case constant.Bool:
		if constant.BoolVal(c) {
			return Val{T: t, Terms: []string{"true"}}
		}
		return Val{T: t, Terms: []string{"false"}}
	case constant.Int:
		n, ok := constant.Int64Val(c)
		if !ok {
			return Val{T: t, Terms: []string{c.ExactString()}}
		}
		return Val{T: t, Terms: []string{intLit(n)}}
	case constant.String:
		s := constant.StringVal(c)
		return Val{T: t, Terms: []string{strLit(s)}, Const: &s}
	}
	specFail("unsupported constant %v", c)
	return Val{}
}

func (env *SpecEnv) loadPtr(p Val) Val {
	pt := derefType(p.T)
	if pt == nil {
		specFail("dereference of non-pointer %v", p.T)
	}
	if _, ok := pt.Underlying().(*types.Struct); ok {
		specFail("whole-struct dereference not supported in contracts")
	}
	return env.st.loadHeapIn(env.snap(), cellHeapBase(pt), pt, p.Terms[0])
}

func (env *SpecEnv) snap() *Snapshot {
	if env.cur != nil {
		return env.cur
	}
	return nil
}

func (env *SpecEnv) evalSel(x *SExpr) Val {
	// package-qualified identifier? (a local variable with the same name as a package shadows it only if it has such a field)
	if x.Args[0].Op == "ident" {
		if _, isVar := env.vars[x.Args[0].Name]; !isVar {
			if p := env.st.eng.pkgByName(x.Args[0].Name, env.pkg); p != nil && env.pkg.Scope().Lookup(x.Args[0].Name) == nil {
				if obj := p.Scope().Lookup(x.Name); obj != nil {
					shadow := false
					if env.fn != nil {
						if a := env.st.eng.localByName(env.fn, x.Args[0].Name); a != nil {
							t := derefType(a.Type())
							if pt := derefType(t); pt != nil {
								t = pt
							}
							if st, ok := t.Underlying().(*types.Struct); ok {
								if i, _ := findField(st, x.Name); i >= 0 {
									shadow = true
								}
							}
						}
					}
					if !shadow {
						return env.evalObj(obj)
					}
				}
			}
		}
	}
	base := env.eval(x.Args[0])
	return env.selectField(base, x.Name)
}

func (env *SpecEnv) selectField(base Val, name string) Val {
	t := base.T
	if p, ok := t.Underlying().(*types.Pointer); ok {
		st, ok := p.Elem().Underlying().(*types.Struct)
		if !ok {
			specFail("field %s of non-struct pointer %v", name, t)
		}
		idx, path := findField(st, name)
		if idx < 0 {
			specFail("no field %s in %v", name, p.Elem())
		}
		fv := env.st.loadHeapIn(env.snap(), fieldHeapBase(p.Elem(), st, idx), st.Field(idx).Type(), base.Terms[0])
		for _, n := range path {
			fv = env.selectField(fv, n)
		}
		return fv
	}
	if st, ok := t.Underlying().(*types.Struct); ok {
		idx, path := findField(st, name)
		if idx < 0 {
			specFail("no field %s in %v", name, t)
		}
		lo, hi := fieldRange(st, idx)
		fv := Val{T: st.Field(idx).Type(), Terms: base.Terms[lo:hi]}
		for _, n := range path {
			fv = env.selectField(fv, n)
		}
		return fv
	}
	specFail("field %s of %v", name, t)
	return Val{}
}

// findField finds a (possibly promoted) field; returns the top-level index and the remaining path.
func findField(st *types.Struct, name string) (int, []string) {
	for i := 0; i < st.NumFields(); i++ {
		if st.Field(i).Name() == name {
			return i, nil
		}
	}
	for i := 0; i < st.NumFields(); i++ {
		f := st.Field(i)
		if f.Embedded() {
			if es, ok := f.Type().Underlying().(*types.Struct); ok {
				if j, p := findField(es, name); j >= 0 {
					return i, append([]string{es.Field(j).Name()}, p...)
				}
			}
		}
	}
	return -1, nil
}

func (env *SpecEnv) evalIndex(x *SExpr) Val {
	base := env.eval(x.Args[0])
	idx := env.eval(x.Args[1])
	switch u := base.T.Underlying().(type) {
	case *types.Slice:
		v := Val{T: u.Elem()}
		for _, t := range base.Terms[2:] {
			v.Terms = append(v.Terms, sel(t, idx.Terms[0]))
		}
		return v
	case *types.Map:
		return env.st.mapValIn(env.snap(), u, base.Terms[0], idx.Terms[0])
	case *types.Basic:
		if isString(base.T) {
			// byte at index as Int
			return mkInt(app("str.to_code", app("str.at", base.Terms[0], idx.Terms[0])))
		}
	case *SetT:
		return mkBool(sel(base.Terms[0], idx.Terms[0]))
	}
	specFail("cannot index %v", base.T)
	return Val{}
}

func (env *SpecEnv) evalSlice(x *SExpr) Val {
	base := env.eval(x.Args[0])
	if isString(base.T) {
		lo := "0"
		if x.Args[1] != nil {
			lo = env.eval(x.Args[1]).Terms[0]
		}
		hi := app("str.len", base.Terms[0])
		if x.Args[2] != nil {
			hi = env.eval(x.Args[2]).Terms[0]
		}
		return mkStr(app("str.substr", base.Terms[0], lo, app("-", hi, lo)))
	}
	specFail("slicing of %v is not supported in contracts (use isconcat/istail)", base.T)
	return Val{}
}

func (env *SpecEnv) evalUn(x *SExpr) Val {
	if x.Name == "&" {
		if x.Args[0].Op == "ident" {
			if p, ok := env.vars["&"+x.Args[0].Name]; ok {
				return p // address of a variable captured by the closure
			}
		}
		// address of a heap-allocated local variable
		if x.Args[0].Op == "ident" && env.fn != nil {
			if a := env.st.eng.localByName(env.fn, x.Args[0].Name); a != nil {
				if r, ok := env.st.regs[a]; ok && r.Loc == nil {
					return r
				}
				specFail("&%s: the variable is not heap-allocated (its address never escapes)", x.Args[0].Name)
			}
		}
		specFail("& is only supported on local variables")
	}
	v := env.eval(x.Args[0])
	switch x.Name {
	case "!":
		return mkBool(not(v.Terms[0]))
	case "-":
		return Val{T: v.T, Terms: []string{app("-", v.Terms[0])}}
	case "*":
		return env.loadPtr(v)
	}
	specFail("unary %s", x.Name)
	return Val{}
}

func (env *SpecEnv) evalBin(x *SExpr) Val {
	switch x.Name {
	case "&&":
		return mkBool(and(env.evalBool(x.Args[0]), env.evalBool(x.Args[1])))
	case "||":
		return mkBool(or(env.evalBool(x.Args[0]), env.evalBool(x.Args[1])))
	case "==>":
		return mkBool(implies(env.evalBool(x.Args[0]), env.evalBool(x.Args[1])))
	case "<==>":
		return mkBool(eq(env.evalBool(x.Args[0]), env.evalBool(x.Args[1])))
	}
	a := env.eval(x.Args[0])
	b := env.eval(x.Args[1])
	switch x.Name {
	case "==", "!=":
		r := valEq(a, b)
		if x.Name == "!=" {
			r = not(r)
		}
		return mkBool(r)
	case "<", "<=", ">", ">=":
		if isString(a.T) {
			switch x.Name {
			case "<":
				return mkBool(app("str.<", a.Terms[0], b.Terms[0]))
			case "<=":
				return mkBool(app("str.<=", a.Terms[0], b.Terms[0]))
			case ">":
				return mkBool(app("str.<", b.Terms[0], a.Terms[0]))
			default:
				return mkBool(app("str.<=", b.Terms[0], a.Terms[0]))
			}
		}
		return mkBool(app(x.Name, a.Terms[0], b.Terms[0]))
	case "+":
		if isString(a.T) {
			return mkStr(app("str.++", a.Terms[0], b.Terms[0]))
		}
		return Val{T: a.T, Terms: []string{app("+", a.Terms[0], b.Terms[0])}}
	case "++":
		return mkStr(app("str.++", a.Terms[0], b.Terms[0]))
	case "-", "*":
		return Val{T: a.T, Terms: []string{app(x.Name, a.Terms[0], b.Terms[0])}}
	case "/":
		return Val{T: a.T, Terms: []string{app("div", a.Terms[0], b.Terms[0])}}
	case "%":
		return Val{T: a.T, Terms: []string{app("mod", a.Terms[0], b.Terms[0])}}
	case "in":
		if st, ok := b.T.(*SetT); ok {
			_ = st
			return mkBool(sel(b.Terms[0], a.Terms[0]))
		}
		if mt, ok := b.T.Underlying().(*types.Map); ok {
			// a nil map has no keys
			return mkBool(and(not(eq(b.Terms[0], "0")), sel(env.st.mapDomIn(env.snap(), mt, b.Terms[0]), a.Terms[0])))
		}
		specFail("'in' needs a set or map on the right, got %v", b.T)
	}
	specFail("binary %s", x.Name)
	return Val{}
}

// valEq compares two values leaf-wise. Slices compare by nil-ness only against nil.
func valEq(a, b Val) string {
	if isSlice(a.T) && len(b.Terms) == 1 {
		return a.Terms[1] // s == nil
	}
	if isSlice(b.T) && len(a.Terms) == 1 {
		return b.Terms[1]
	}
	if len(a.Terms) != len(b.Terms) {
		specFail("cannot compare %v with %v", a.T, b.T)
	}
	if isSlice(a.T) {
		specFail("slices cannot be compared with ==; use eqseq")
	}
	var cs []string
	for i := range a.Terms {
		cs = append(cs, eq(a.Terms[i], b.Terms[i]))
	}
	return and(cs...)
}

func (env *SpecEnv) evalCall(x *SExpr) Val {
	arg := func(i int) Val {
		if i >= len(x.Args) {
			specFail("%s: missing argument %d", x.Name, i)
		}
		return env.eval(x.Args[i])
	}
	t0 := func(i int) string { return arg(i).Terms[0] }
	switch x.Name {
	case "old":
		if env.old == nil {
			specFail("old() not available here")
		}
		ne := env.at(env.old)
		return ne.eval(x.Args[0])
	case "final":
		// final(p): the contents of the slice parameter p after an in-place operation (contracts with "inplace p")
		if len(x.Args) == 1 && x.Args[0].Op == "ident" {
			if v, ok := env.vars["final:"+x.Args[0].Name]; ok {
				return v
			}
		}
		specFail("final() needs a parameter declared inplace")
	case "old_iter":
		if env.iter == nil {
			specFail("old_iter() not available here")
		}
		return env.at(env.iter).eval(x.Args[0])
	case "old_loop":
		if env.pre == nil {
			specFail("old_loop() not available here")
		}
		return env.at(env.pre).eval(x.Args[0])
	case "len":
		v := arg(0)
		switch u := v.T.Underlying().(type) {
		case *types.Slice:
			return mkInt(v.Terms[0])
		case *types.Map:
			return mkInt(env.st.mapCardIn(env.snap(), u, v.Terms[0]))
		}
		if isString(v.T) {
			return mkInt(app("str.len", v.Terms[0]))
		}
		specFail("len of %v", v.T)
	case "dom":
		v := arg(0)
		mt, ok := v.T.Underlying().(*types.Map)
		if !ok {
			specFail("dom of non-map %v", v.T)
		}
		return Val{T: &SetT{mt.Key()}, Terms: []string{env.st.mapDomIn(env.snap(), mt, v.Terms[0])}}
	case "fresh":
		// allocated after function entry (or the call pre-state)
		v := arg(0)
		base := env.st.entryAlloc()
		if env.old != nil && env.old.Alloc != "" {
			base = env.old.Alloc
		}
		return mkBool(and(app(">=", v.Terms[0], base), app(">", v.Terms[0], "0")))
	case "allocated":
		v := arg(0)
		base := env.st.entryAlloc()
		if env.old != nil && env.old.Alloc != "" {
			base = env.old.Alloc
		}
		return mkBool(and(app("<", v.Terms[0], base), app("<=", "0", v.Terms[0])))
	case "hasprefix":
		return mkBool(app("str.prefixof", t0(1), t0(0)))
	case "hassuffix":
		return mkBool(app("str.suffixof", t0(1), t0(0)))
	case "contains":
		return mkBool(app("str.contains", t0(0), t0(1)))
	case "indexof":
		return mkInt(app("str.indexof", t0(0), t0(1), "0"))
	case "substr":
		return mkStr(app("str.substr", t0(0), t0(1), t0(2)))
	case "atoi_ok":
		return mkBool(app("atoi_ok", t0(0)))
	case "atoi_val":
		return mkInt(app("atoi_val", t0(0)))
	case "pf_ok":
		return mkBool(app("pf_ok", t0(0)))
	case "pf_val":
		return Val{T: types.Typ[types.Float64], Terms: []string{app("pf_val", t0(0))}}
	case "lower":
		return mkStr(app("str_lower", t0(0)))
	case "getenv":
		return mkStr(app("os_getenv", t0(0)))
	case "wscount":
		return mkInt(app("ws_count", t0(0)))
	case "wsword":
		return mkStr(sel(app("ws_words", t0(0)), t0(1)))
	case "errmsg":
		return mkStr(app("err_msg", t0(0)))
	case "erris":
		return mkBool(app("err_is", t0(0), t0(1)))
	case "ite":
		c := env.evalBool(x.Args[0])
		a, b := arg(1), arg(2)
		out := Val{T: a.T}
		for i := range a.Terms {
			out.Terms = append(out.Terms, ite(c, a.Terms[i], b.Terms[i]))
		}
		return out
	case "eqseq":
		return mkBool(env.seqEq(arg(0), "0", arg(1), "0", arg(0).Terms[0], true))
	case "isconcat":
		// isconcat(r, a, b): r == a ++ b
		r, a, b := arg(0), arg(1), arg(2)
		return mkBool(and(eq(r.Terms[0], app("+", a.Terms[0], b.Terms[0])),
			env.seqEq(r, "0", a, "0", a.Terms[0], false),
			env.seqEq(r, a.Terms[0], b, "0", b.Terms[0], false)))
	case "isconcat_tail":
		// isconcat_tail(r, a, b, i): r == a ++ b[i:]
		r, a, b, i := arg(0), arg(1), arg(2), t0(3)
		n := app("-", b.Terms[0], i)
		return mkBool(and(eq(r.Terms[0], app("+", a.Terms[0], n)),
			env.seqEq(r, "0", a, "0", a.Terms[0], false),
			env.seqEq(r, a.Terms[0], b, i, n, false)))
	case "identical":
		// identical(a, b): every leaf equal (slices: same length, nil-ness and the very same backing contents)
		a, b := arg(0), arg(1)
		if len(a.Terms) != len(b.Terms) {
			specFail("identical: different shapes %v %v", a.T, b.T)
		}
		var cs []string
		for i := range a.Terms {
			cs = append(cs, eq(a.Terms[i], b.Terms[i]))
		}
		return mkBool(and(cs...))
	case "isconcat_range":
		// isconcat_range(r, a, b, lo, hi): r == a ++ b[lo:hi]
		r, a, b, lo, hi := arg(0), arg(1), arg(2), t0(3), t0(4)
		n := app("-", hi, lo)
		return mkBool(and(eq(r.Terms[0], app("+", a.Terms[0], n)),
			env.seqEq(r, "0", a, "0", a.Terms[0], false),
			env.seqEq(r, a.Terms[0], b, lo, n, false)))
	case "isappend1":
		// isappend1(r, a, x): r == a ++ [x]
		r, a, xv := arg(0), arg(1), arg(2)
		cs := []string{eq(r.Terms[0], app("+", a.Terms[0], "1")), env.seqEq(r, "0", a, "0", a.Terms[0], false)}
		for i := range xv.Terms {
			cs = append(cs, eq(sel(r.Terms[2+i], a.Terms[0]), xv.Terms[i]))
		}
		return mkBool(and(cs...))
	case "seqrange_eq":
		// seqrange_eq(a, i, b, j, n): a[i..i+n) == b[j..j+n)
		return mkBool(env.seqEq(arg(0), t0(1), arg(2), t0(3), t0(4), false))
	case "inseq":
		// inseq(x, s): exists k in range with s[k] == x
		xv, sv := arg(0), arg(1)
		k := sym(fmt.Sprintf("k?q%d", env.qd+20))
		var cs []string
		for i := range xv.Terms {
			cs = append(cs, eq(sel(sv.Terms[2+i], k), xv.Terms[i]))
		}
		return mkBool(fmt.Sprintf("(exists ((%s Int)) %s)", k, and(append([]string{app("<=", "0", k), app("<", k, sv.Terms[0])}, cs...)...)))
	case "sorted":
		sv := arg(0)
		i := sym(fmt.Sprintf("i?q%d", env.qd+20))
		j := sym(fmt.Sprintf("j?q%d", env.qd+20))
		return mkBool(fmt.Sprintf("(forall ((%s Int) (%s Int)) (=> (and (<= 0 %s) (< %s %s) (< %s %s)) (str.<= (select %s %s) (select %s %s))))",
			i, j, i, i, j, j, sv.Terms[0], sv.Terms[2], i, sv.Terms[2], j))
	case "mapref":
		return mkInt(t0(0))
	case "strfn":
		// application of a string->string function value (uninterpreted)
		return mkStr(app("fn_app_ss", t0(0), t0(1)))
	case "joined":
		v := arg(0)
		return mkStr(app("str_join", v.Terms[2], v.Terms[0], t0(1)))
	case "repeat":
		return mkStr(app("str_repeat", t0(0), t0(1)))
	case "trimprefix":
		x, p := t0(0), t0(1)
		return mkStr(ite(app("str.prefixof", p, x), app("str.substr", x, app("str.len", p), app("-", app("str.len", x), app("str.len", p))), x))
	case "locked":
		// locked(x.f): this goroutine holds the mutex in field f of the object x (ghost lock state)
		if len(x.Args) != 1 || x.Args[0].Op != "sel" {
			specFail("locked() expects a field expression x.f")
		}
		base := env.eval(x.Args[0].Args[0])
		pt := derefType(base.T)
		if pt == nil {
			specFail("locked(): %s is not a pointer", x.Args[0].Args[0])
		}
		st, ok := pt.Underlying().(*types.Struct)
		if !ok {
			specFail("locked(): not a struct pointer")
		}
		idx, path := findField(st, x.Args[0].Name)
		if idx < 0 || len(path) != 0 {
			specFail("locked(): no direct field %s", x.Args[0].Name)
		}
		return mkBool(sel(env.st.mutexState(), app("mutex_addr", base.Terms[0], fmt.Sprint(idx))))
	case "chancap":
		return mkInt(app("chan_cap", t0(0)))
	case "helptext":
		env.st.eng.assumptionsUsed["helptext(node) names the text helpOutput(node) yields in the current definition state (assumed unchanged between the compared calls)"] = true
		return mkStr(app("help_text", t0(0)))
	case "charat":
		return mkStr(app("str.at", t0(0), t0(1)))
	case "explode":
		v := arg(0)
		return Val{T: types.NewSlice(tString), Terms: []string{app("rune_count", v.Terms[0]), "false", app("str_explode", v.Terms[0])}}
	case "rune_count":
		return mkInt(app("rune_count", t0(0)))
	case "typetag":
		return mkStr(app("iface_tag", t0(0)))
	case "ifaceref":
		// the pointer wrapped by an interface value, typed by the second argument (a type text)
		t := env.resolveType(x.Args[1].Name)
		return Val{T: t, Terms: []string{app("iface_int", t0(0))}}
	}
	// user-defined spec function
	if sf := env.st.eng.specFuncs[x.Name]; sf != nil {
		return env.callSpecFunc(sf, x)
	}
	specFail("unknown spec function %q", x.Name)
	return Val{}
}

// seqEq: forall j in [ai, ai+n): a[j] == b[j-ai+bi]  (and equal length when full)
func (env *SpecEnv) seqEq(a Val, ai string, b Val, bi string, n string, full bool) string {
	if !isSlice(a.T) || !isSlice(b.T) {
		specFail("sequence comparison on non-slices %v %v", a.T, b.T)
	}
	k := sym(fmt.Sprintf("k?q%d", env.qd+20))
	var cs []string
	ib := k
	if ai != bi {
		ib = app("+", app("-", k, ai), bi)
		if ai == "0" {
			ib = app("+", k, bi)
		} else if bi == "0" {
			ib = app("-", k, ai)
		}
	}
	for i := range a.Terms[2:] {
		cs = append(cs, eq(sel(a.Terms[2+i], k), sel(b.Terms[2+i], ib)))
	}
	hi := app("+", ai, n)
	if ai == "0" {
		hi = n
	}
	q := fmt.Sprintf("(forall ((%s Int)) (! (=> (and (<= %s %s) (< %s %s)) %s) :pattern ((select %s %s))))", k, ai, k, k, hi, and(cs...), a.Terms[2], k)
	if strings.Contains(a.Terms[2], "(ite ") {
		// solvers reject ite inside patterns
		q = fmt.Sprintf("(forall ((%s Int)) (=> (and (<= %s %s) (< %s %s)) %s))", k, ai, k, k, hi, and(cs...))
	}
	if full {
		return and(eq(a.Terms[0], b.Terms[0]), q)
	}
	return q
}

func (env *SpecEnv) callSpecFunc(sf *SpecFunc, x *SExpr) Val {
	if len(x.Args) != len(sf.Params) {
		specFail("%s: expected %d arguments", sf.Name, len(sf.Params))
	}
	if sf.Rec {
		// recursive functions are SMT define-fun-rec over flattened parameters
		var args []string
		for _, a := range x.Args {
			args = append(args, env.eval(a).Terms...)
		}
		env.st.eng.usedRec[sf.Name] = true
		return Val{T: env.resolveTypeIn(sf.Ret, sf.Pkg), Terms: []string{app(sym(sf.Name), args...)}}
	}
	// non-recursive: inline (macro) in the current heap context
	if env.depth > 40 {
		specFail("spec function expansion too deep in %s", sf.Name)
	}
	ne := *env
	ne.depth++
	ne.vars = map[string]Val{}
	for i, p := range sf.Params {
		ne.vars[p.Name] = env.eval(x.Args[i])
	}
	if p := env.st.eng.typesPkgs[sf.Pkg]; p != nil {
		ne.pkg = p
	}
	// dynamic scoping: a spec function used inside a function's own contract may name that function's locals
	res := ne.eval(sf.Body)
	// name large closed results so that repeated uses (e.g. in every clause of a callee contract) stay small
	if env.qd == 0 && len(res.Terms) == 1 && len(res.Terms[0]) > 160 && res.Loc == nil {
		if sh := shapeOf(res.T); len(sh) == 1 {
			res.Terms = []string{env.st.defineCached(sf.Name, sh[0].Sort, res.Terms[0])}
		}
	}
	return res
}

func (env *SpecEnv) resolveTypeIn(txt, pkg string) types.Type {
	ne := *env
	if p := env.st.eng.typesPkgs[pkg]; p != nil {
		ne.pkg = p
	}
	return ne.resolveType(txt)
}

// safeEval runs f and converts spec failures into an error.
func safeSpec(f func()) (err error) {
	defer func() {
		if r := recover(); r != nil {
			if se, ok := r.(specErr); ok {
				err = fmt.Errorf("%s", se.msg)
				return
			}
			panic(r)
		}
	}()
	f()
	return nil
}
