package main

// Parser for the contract language kept in /repo/**/verif_contracts.go
// (comment-only files guarded by the `verif` build tag).

import (
	"fmt"
	"go/types"
	"os"
	"path/filepath"
	"regexp"
	"strconv"
	"strings"
)

// ---- expression AST -------------------------------------------------------

type SExpr struct {
	Op   string // ident int str bool nil call sel index slice un bin forall exists
	Name string // identifier / operator / field / function name
	Args []*SExpr
	Vars []SVar // quantifier binders
	Pos  string
}

type SVar struct {
	Name string
	Type string // spec type text: int string bool ref or a Go type text
}

func (e *SExpr) String() string {
	switch e.Op {
	case "ident", "int", "bool", "nil":
		return e.Name
	case "str":
		return strconv.Quote(e.Name)
	case "call":
		a := []string{}
		for _, x := range e.Args {
			a = append(a, x.String())
		}
		return e.Name + "(" + strings.Join(a, ", ") + ")"
	case "sel":
		return e.Args[0].String() + "." + e.Name
	case "index":
		return e.Args[0].String() + "[" + e.Args[1].String() + "]"
	case "slice":
		lo, hi := "", ""
		if e.Args[1] != nil {
			lo = e.Args[1].String()
		}
		if e.Args[2] != nil {
			hi = e.Args[2].String()
		}
		return e.Args[0].String() + "[" + lo + ":" + hi + "]"
	case "un":
		return e.Name + e.Args[0].String()
	case "bin":
		return "(" + e.Args[0].String() + " " + e.Name + " " + e.Args[1].String() + ")"
	case "forall", "exists":
		vs := []string{}
		for _, v := range e.Vars {
			vs = append(vs, v.Name+" "+v.Type)
		}
		return "(" + e.Op + " " + strings.Join(vs, ", ") + " :: " + e.Args[0].String() + ")"
	}
	return "?"
}

// ---- tokenizer ------------------------------------------------------------

type tok struct {
	k string // id int str op eof
	s string
}

func lexSpec(src string) ([]tok, error) {
	var ts []tok
	i := 0
	for i < len(src) {
		c := src[i]
		switch {
		case c == ' ' || c == '\t' || c == '\n' || c == '\r':
			i++
		case c >= '0' && c <= '9':
			j := i
			for j < len(src) && (src[j] >= '0' && src[j] <= '9' || src[j] == '_') {
				j++
			}
			ts = append(ts, tok{"int", strings.ReplaceAll(src[i:j], "_", "")})
			i = j
		case c == '"':
			j := i + 1
			for j < len(src) && src[j] != '"' {
				if src[j] == '\\' {
					j++
				}
				j++
			}
			if j >= len(src) {
				return nil, fmt.Errorf("unterminated string in %q", src)
			}
			s, err := strconv.Unquote(src[i : j+1])
			if err != nil {
				return nil, fmt.Errorf("bad string %s: %v", src[i:j+1], err)
			}
			ts = append(ts, tok{"str", s})
			i = j + 1
		case c == '_' || c == '$' || c >= 'a' && c <= 'z' || c >= 'A' && c <= 'Z':
			j := i
			for j < len(src) && (src[j] == '_' || src[j] == '$' || src[j] >= 'a' && src[j] <= 'z' || src[j] >= 'A' && src[j] <= 'Z' || src[j] >= '0' && src[j] <= '9') {
				j++
			}
			ts = append(ts, tok{"id", src[i:j]})
			i = j
		default:
			ops := []string{"<==>", "==>", "::", "==", "!=", "<=", ">=", "&&", "||", "++", "<", ">", "+", "-", "*", "/", "%", "!", "(", ")", "[", "]", ".", ",", ":", "{", "}", "&"}
			found := false
			for _, o := range ops {
				if strings.HasPrefix(src[i:], o) {
					ts = append(ts, tok{"op", o})
					i += len(o)
					found = true
					break
				}
			}
			if !found {
				return nil, fmt.Errorf("unexpected character %q in %q", c, src)
			}
		}
	}
	ts = append(ts, tok{"eof", ""})
	return ts, nil
}

type sparser struct {
	ts  []tok
	p   int
	src string
}

func (p *sparser) peek() tok { return p.ts[p.p] }
func (p *sparser) next() tok { t := p.ts[p.p]; p.p++; return t }
func (p *sparser) isOp(s string) bool {
	t := p.peek()
	return t.k == "op" && t.s == s
}
func (p *sparser) isID(s string) bool {
	t := p.peek()
	return t.k == "id" && t.s == s
}
func (p *sparser) expectOp(s string) {
	if !p.isOp(s) {
		panic(fmt.Sprintf("expected %q at token %d (%v) in %q", s, p.p, p.peek(), p.src))
	}
	p.p++
}

func parseSpecExpr(src string) (e *SExpr, err error) {
	ts, err := lexSpec(src)
	if err != nil {
		return nil, err
	}
	p := &sparser{ts: ts, src: src}
	defer func() {
		if r := recover(); r != nil {
			err = fmt.Errorf("%v", r)
		}
	}()
	e = p.expr()
	if p.peek().k != "eof" {
		panic(fmt.Sprintf("trailing tokens at %d (%v) in %q", p.p, p.peek(), src))
	}
	return e, nil
}

func (p *sparser) expr() *SExpr {
	if p.isID("forall") || p.isID("exists") {
		q := p.next().s
		vars := []SVar{}
		for {
			name := p.next()
			if name.k != "id" {
				panic("binder name expected in " + p.src)
			}
			ty := p.typeText()
			vars = append(vars, SVar{name.s, ty})
			if p.isOp(",") {
				p.p++
				continue
			}
			break
		}
		p.expectOp("::")
		body := p.expr()
		return &SExpr{Op: q, Vars: vars, Args: []*SExpr{body}}
	}
	return p.iff()
}

func (p *sparser) typeText() string {
	s := ""
	for p.isOp("*") || p.isOp("[") || p.isOp("]") {
		s += p.next().s
	}
	if p.isID("map") {
		p.p++
		p.expectOp("[")
		k := p.typeText()
		p.expectOp("]")
		return s + "map[" + k + "]" + p.typeText()
	}
	t := p.next()
	if t.k != "id" {
		panic("type expected in " + p.src)
	}
	s += t.s
	for p.isOp(".") {
		p.p++
		s += "." + p.next().s
	}
	return s
}

func (p *sparser) iff() *SExpr {
	l := p.impl()
	for p.isOp("<==>") {
		p.p++
		r := p.impl()
		l = &SExpr{Op: "bin", Name: "<==>", Args: []*SExpr{l, r}}
	}
	return l
}

func (p *sparser) impl() *SExpr {
	l := p.or()
	if p.isOp("==>") {
		p.p++
		var r *SExpr
		if p.isID("forall") || p.isID("exists") {
			r = p.expr()
		} else {
			r = p.impl()
		}
		return &SExpr{Op: "bin", Name: "==>", Args: []*SExpr{l, r}}
	}
	return l
}

func (p *sparser) or() *SExpr {
	l := p.and()
	for p.isOp("||") {
		p.p++
		r := p.and()
		l = &SExpr{Op: "bin", Name: "||", Args: []*SExpr{l, r}}
	}
	return l
}

func (p *sparser) and() *SExpr {
	l := p.cmp()
	for p.isOp("&&") {
		p.p++
		var r *SExpr
		if p.isID("forall") || p.isID("exists") {
			r = p.expr()
		} else {
			r = p.cmp()
		}
		l = &SExpr{Op: "bin", Name: "&&", Args: []*SExpr{l, r}}
	}
	return l
}

func (p *sparser) cmp() *SExpr {
	l := p.add()
	for {
		t := p.peek()
		if t.k == "op" && (t.s == "==" || t.s == "!=" || t.s == "<" || t.s == "<=" || t.s == ">" || t.s == ">=") {
			p.p++
			r := p.add()
			l = &SExpr{Op: "bin", Name: t.s, Args: []*SExpr{l, r}}
			continue
		}
		if t.k == "id" && t.s == "in" {
			p.p++
			r := p.add()
			l = &SExpr{Op: "bin", Name: "in", Args: []*SExpr{l, r}}
			continue
		}
		return l
	}
}

func (p *sparser) add() *SExpr {
	l := p.mul()
	for p.isOp("+") || p.isOp("-") || p.isOp("++") {
		o := p.next().s
		r := p.mul()
		l = &SExpr{Op: "bin", Name: o, Args: []*SExpr{l, r}}
	}
	return l
}

func (p *sparser) mul() *SExpr {
	l := p.unary()
	for p.isOp("*") || p.isOp("/") || p.isOp("%") {
		o := p.next().s
		r := p.unary()
		l = &SExpr{Op: "bin", Name: o, Args: []*SExpr{l, r}}
	}
	return l
}

func (p *sparser) unary() *SExpr {
	if p.isOp("!") || p.isOp("-") || p.isOp("*") || p.isOp("&") {
		o := p.next().s
		x := p.unary()
		return &SExpr{Op: "un", Name: o, Args: []*SExpr{x}}
	}
	return p.postfix()
}

func (p *sparser) postfix() *SExpr {
	e := p.primary()
	for {
		switch {
		case p.isOp("."):
			p.p++
			t := p.next()
			if t.k != "id" {
				panic("field name expected in " + p.src)
			}
			e = &SExpr{Op: "sel", Name: t.s, Args: []*SExpr{e}}
		case p.isOp("["):
			p.p++
			var lo, hi *SExpr
			if p.isOp(":") {
				p.p++
				if !p.isOp("]") {
					hi = p.expr()
				}
				p.expectOp("]")
				e = &SExpr{Op: "slice", Args: []*SExpr{e, nil, hi}}
				continue
			}
			lo = p.expr()
			if p.isOp(":") {
				p.p++
				if !p.isOp("]") {
					hi = p.expr()
				}
				p.expectOp("]")
				e = &SExpr{Op: "slice", Args: []*SExpr{e, lo, hi}}
				continue
			}
			p.expectOp("]")
			e = &SExpr{Op: "index", Args: []*SExpr{e, lo}}
		case p.isOp("("):
			// call: only on identifiers (possibly qualified a.b)
			name := ""
			switch e.Op {
			case "ident":
				name = e.Name
			case "sel":
				if e.Args[0].Op == "ident" {
					name = e.Args[0].Name + "." + e.Name
				}
			}
			if name == "" {
				panic("call of non-identifier in " + p.src)
			}
			p.p++
			args := []*SExpr{}
			for !p.isOp(")") {
				if (name == "ifaceref" && len(args) == 1) || ((name == "cell" || name == "allmaps") && len(args) == 0) {
					args = append(args, &SExpr{Op: "ident", Name: p.typeText()})
					continue
				}
				args = append(args, p.expr())
				if p.isOp(",") {
					p.p++
				}
			}
			p.expectOp(")")
			e = &SExpr{Op: "call", Name: name, Args: args}
		default:
			return e
		}
	}
}

func (p *sparser) primary() *SExpr {
	t := p.next()
	switch t.k {
	case "int":
		return &SExpr{Op: "int", Name: t.s}
	case "str":
		return &SExpr{Op: "str", Name: t.s}
	case "id":
		switch t.s {
		case "true", "false":
			return &SExpr{Op: "bool", Name: t.s}
		case "nil":
			return &SExpr{Op: "nil", Name: "nil"}
		}
		return &SExpr{Op: "ident", Name: t.s}
	case "op":
		if t.s == "(" {
			e := p.expr()
			p.expectOp(")")
			return e
		}
	}
	panic(fmt.Sprintf("unexpected token %v in %q", t, p.src))
}

// ---- contract file structure ---------------------------------------------

type Clause struct {
	Kind  string // requires ensures invariant decreases assert
	Name  string
	Props []string
	Expr  *SExpr
	Src   string
	Where string // file:line
	Tagged bool  // the clause names the properties it serves explicitly ("name {C01,C02}: ...")
}

type LoopSpec struct {
	Selector   string
	Invariants []*Clause
	Steps      []*Clause // two-state per-iteration obligations (old_iter = state at the head of the iteration; $exit = the path leaves the loop)
	Decreases  *Clause
	Modifies   []*SExpr
	HasMod     bool
	Where      string
	Used       bool
}

type FuncSpec struct {
	Name      string // ssa-style name relative to package: isOption, (*Option).Save, GetEnv$1
	Pkg       string
	Props     []string
	Requires  []*Clause
	Ensures   []*Clause
	Flows     []FlowSpec
	Inplace   []string  // slice parameters whose elements the function rearranges in place ("inplace p"; post-state named final(p))
	AtCalls   []*AtCall // call-site clauses: asserted at every call of the named callee inside this function
	Receives  []*Clause // channel invariants: "receives <chan>: P($msg)" (assumed when receiving from <chan>)
	Callback  bool      // function-type contract of a user callback: its effects are not attributed to the caller's frame
	Defines   []*Clause // naming clauses: assumed at call sites, not checked (they only introduce a name for the result)
	MayPanic  []*Clause // the function may panic only in states satisfying one of these (evaluated on entry)
	Modifies  []*SExpr
	HasMod    bool
	Loops     []*LoopSpec
	Trusted   bool // contract assumed, body not verified (listed in evidence)
	Pure      bool
	Where     string
	Allocates bool
	AllocTypes []string // type texts of the objects the function may allocate (besides what it returns)
	merged     bool
	Implements string          // name of a function-type contract ("type ModifyFn") this function must also satisfy
	ftSig     *types.Signature // contracts of named function types
	ftParams  []string
}

// AtCall is "atcall <callee> name {props}: expr": at every call of <callee> (matched by function name) in the body,
// expr must hold; $arg0.. are the call's arguments (receiver first for methods), old(e) is the function's entry state.
type AtCall struct {
	Callee string
	Clause *Clause
	Used   bool
}

type FlowSpec struct {
	Param, Callee, Where string
	Props                []string
}

type SpecFunc struct {
	Name   string
	Params []SVar
	Ret    string
	Body   *SExpr
	Rec    bool
	Pkg    string
	Where  string
}

type Axiom struct {
	Name  string
	Expr  *SExpr
	Pkg   string
	Where string
}

type Lemma struct {
	Name     string
	Params   []SVar
	Requires []*Clause
	Ensures  []*Clause
	Props    []string
	Pkg      string
	Where    string
}

type SpecFile struct {
	Pkg       string
	Funcs     map[string]*FuncSpec
	FuncOrder []string
	SpecFuncs []*SpecFunc
	Ghosts    map[string]string // ghost variable -> type text
	LocalGhosts []string
	Axioms    []*Axiom
	Lemmas    []*Lemma
}

var clauseHead = regexp.MustCompile(`^(?:([A-Za-z0-9_.$\-]+)\s*)?(?:\{([A-Za-z0-9 ,]*)\}\s*)?:\s`)

func parseClause(kind, rest, where string, defProps []string) (*Clause, error) {
	c := &Clause{Kind: kind, Where: where, Props: defProps}
	// optional "name {C01,C02}: expr"
	if m := clauseHead.FindStringSubmatch(rest + " "); m != nil && !strings.HasPrefix(strings.TrimSpace(rest), "forall") {
		// make sure what precedes ':' isn't an expression like a[1:2]; heads never contain '[' or '('
		c.Name = m[1]
		if m[2] != "" {
			c.Tagged = true
			c.Props = nil
			for _, p := range strings.FieldsFunc(m[2], func(r rune) bool { return r == ',' || r == ' ' }) {
				c.Props = append(c.Props, p)
			}
		}
		rest = strings.TrimSpace(rest[len(m[0])-1:])
	}
	e, err := parseSpecExpr(rest)
	if err != nil {
		return nil, fmt.Errorf("%s: %v", where, err)
	}
	c.Expr = e
	c.Src = rest
	return c, nil
}

func parseModifies(rest, where string) ([]*SExpr, error) {
	rest = strings.TrimSpace(rest)
	if rest == "" || rest == "nothing" {
		return nil, nil
	}
	var out []*SExpr
	// split on top-level commas
	d := 0
	start := 0
	parts := []string{}
	for i := 0; i < len(rest); i++ {
		switch rest[i] {
		case '(', '[':
			d++
		case ')', ']':
			d--
		case ',':
			if d == 0 {
				parts = append(parts, rest[start:i])
				start = i + 1
			}
		}
	}
	parts = append(parts, rest[start:])
	for _, p := range parts {
		e, err := parseSpecExpr(strings.TrimSpace(p))
		if err != nil {
			return nil, fmt.Errorf("%s: %v", where, err)
		}
		out = append(out, e)
	}
	return out, nil
}

var specKeywords = map[string]bool{"func": true, "props": true, "requires": true, "ensures": true, "modifies": true,
	"loop": true, "invariant": true, "decreases": true, "step": true, "spec": true, "axiom": true, "lemma": true, "trusted": true,
	"pure": true, "end": true, "allocates": true, "maypanic": true, "ghost": true, "implements": true, "defines": true, "receives": true, "callback": true, "onlyflows": true, "atcall": true, "inplace": true}

// parseSpecFile reads one verif_contracts.go file.
func parseSpecFile(path, pkg string) (*SpecFile, error) {
	data, err := os.ReadFile(path)
	if err != nil {
		return nil, err
	}
	sf := &SpecFile{Pkg: pkg, Funcs: map[string]*FuncSpec{}, Ghosts: map[string]string{}}
	// gather logical lines
	type ll struct {
		text  string
		where string
	}
	var lines []ll
	for i, raw := range strings.Split(string(data), "\n") {
		t := strings.TrimSpace(raw)
		if !strings.HasPrefix(t, "//@") {
			continue
		}
		t = strings.TrimSpace(t[3:])
		if t == "" || strings.HasPrefix(t, "#") {
			continue
		}
		// strip trailing comment introduced by " //# "
		if k := strings.Index(t, " //#"); k >= 0 {
			t = strings.TrimSpace(t[:k])
		}
		first := t
		if k := strings.IndexAny(t, " \t"); k >= 0 {
			first = t[:k]
		}
		where := fmt.Sprintf("%s:%d", filepath.Base(filepath.Dir(path))+"/"+filepath.Base(path), i+1)
		if specKeywords[first] || len(lines) == 0 {
			lines = append(lines, ll{t, where})
		} else {
			lines[len(lines)-1].text += " " + t
		}
	}
	var curF *FuncSpec
	var curL *LoopSpec
	var curLemma *Lemma
	for _, l := range lines {
		kw := l.text
		rest := ""
		if k := strings.IndexAny(l.text, " \t"); k >= 0 {
			kw = l.text[:k]
			rest = strings.TrimSpace(l.text[k+1:])
		}
		switch kw {
		case "func":
			var ftp []string
			if strings.HasPrefix(rest, "type ") && !strings.HasPrefix(rest, "type func(") {
				if k := strings.Index(rest, "("); k > 0 {
					for _, pn := range strings.Split(strings.TrimSuffix(strings.TrimSpace(rest[k+1:]), ")"), ",") {
						if pn = strings.TrimSpace(pn); pn != "" {
							ftp = append(ftp, pn)
						}
					}
					rest = strings.TrimSpace(rest[:k])
				}
			}
			curF = &FuncSpec{Name: rest, Pkg: pkg, Where: l.where, ftParams: ftp}
			curL = nil
			curLemma = nil
			if _, dup := sf.Funcs[rest]; dup {
				return nil, fmt.Errorf("%s: duplicate contract for %s", l.where, rest)
			}
			sf.Funcs[rest] = curF
			sf.FuncOrder = append(sf.FuncOrder, rest)
		case "end":
			curF, curL, curLemma = nil, nil, nil
		case "props":
			ps := strings.Fields(strings.ReplaceAll(rest, ",", " "))
			if curLemma != nil {
				curLemma.Props = ps
			} else if curF != nil {
				curF.Props = ps
			}
		case "ghost":
			f := strings.Fields(rest)
			if len(f) == 3 && f[0] == "local" {
				// goroutine-local bookkeeping: not touched by callbacks / havoc-all
				f = f[1:]
				sf.LocalGhosts = append(sf.LocalGhosts, f[0])
			}
			if len(f) != 2 || !strings.HasPrefix(f[0], "$") {
				return nil, fmt.Errorf("%s: expected 'ghost [local] $name type'", l.where)
			}
			sf.Ghosts[f[0]] = f[1]
		case "implements":
			if curF == nil {
				return nil, fmt.Errorf("%s: implements outside func", l.where)
			}
			curF.Implements = strings.TrimSpace(rest)
		case "trusted":
			if curF == nil {
				return nil, fmt.Errorf("%s: trusted outside func", l.where)
			}
			curF.Trusted = true
		case "pure":
			if curF != nil {
				curF.Pure = true
			}
		case "allocates":
			if curF != nil {
				curF.Allocates = true
				for _, t := range strings.Split(rest, ",") {
					if t = strings.TrimSpace(t); t != "" {
						curF.AllocTypes = append(curF.AllocTypes, t)
					}
				}
			}
		case "callback":
			if curF != nil {
				curF.Callback = true
			}
		case "inplace":
			if curF == nil {
				return nil, fmt.Errorf("%s: inplace outside func", l.where)
			}
			for _, pn := range strings.Fields(strings.ReplaceAll(rest, ",", " ")) {
				curF.Inplace = append(curF.Inplace, pn)
			}
		case "onlyflows":
			// onlyflows <param> <callee> {props}: the parameter is used only as an argument of calls to <callee>
			f := strings.Fields(rest)
			if curF == nil || len(f) < 2 {
				return nil, fmt.Errorf("%s: expected 'onlyflows <param> <callee> [{props}]'", l.where)
			}
			fl := FlowSpec{Param: f[0], Callee: f[1], Where: l.where, Props: curF.Props}
			if len(f) > 2 {
				fl.Props = strings.FieldsFunc(strings.Trim(strings.Join(f[2:], " "), "{}"), func(r rune) bool { return r == ',' || r == ' ' })
			}
			curF.Flows = append(curF.Flows, fl)
		case "atcall":
			f := strings.SplitN(rest, " ", 2)
			if curF == nil || len(f) < 2 {
				return nil, fmt.Errorf("%s: expected 'atcall <callee> name {props}: expr'", l.where)
			}
			c, err := parseClause("atcall", strings.TrimSpace(f[1]), l.where, curF.Props)
			if err != nil {
				return nil, err
			}
			curF.AtCalls = append(curF.AtCalls, &AtCall{Callee: f[0], Clause: c})
		case "receives":
			if curF == nil {
				return nil, fmt.Errorf("%s: receives outside func", l.where)
			}
			c, err := parseClause("receives", rest, l.where, curF.Props)
			if err != nil {
				return nil, err
			}
			if c.Name == "" {
				return nil, fmt.Errorf("%s: receives needs a channel name: 'receives done: expr'", l.where)
			}
			curF.Receives = append(curF.Receives, c)
		case "defines":
			if curF == nil {
				return nil, fmt.Errorf("%s: defines outside func", l.where)
			}
			c, err := parseClause("defines", rest, l.where, curF.Props)
			if err != nil {
				return nil, err
			}
			curF.Defines = append(curF.Defines, c)
		case "maypanic":
			if curF == nil {
				return nil, fmt.Errorf("%s: maypanic outside func", l.where)
			}
			c, err := parseClause("maypanic", rest, l.where, curF.Props)
			if err != nil {
				return nil, err
			}
			curF.MayPanic = append(curF.MayPanic, c)
		case "requires", "ensures":
			var props []string
			if curLemma != nil {
				props = curLemma.Props
			} else if curF != nil {
				props = curF.Props
			} else {
				return nil, fmt.Errorf("%s: %s outside func/lemma", l.where, kw)
			}
			c, err := parseClause(kw, rest, l.where, props)
			if err != nil {
				return nil, err
			}
			switch {
			case curLemma != nil && kw == "requires":
				curLemma.Requires = append(curLemma.Requires, c)
			case curLemma != nil:
				curLemma.Ensures = append(curLemma.Ensures, c)
			case kw == "requires":
				curF.Requires = append(curF.Requires, c)
			default:
				curF.Ensures = append(curF.Ensures, c)
			}
		case "modifies":
			ms, err := parseModifies(rest, l.where)
			if err != nil {
				return nil, err
			}
			if curL != nil {
				curL.Modifies = append(curL.Modifies, ms...)
				curL.HasMod = true
			} else if curF != nil {
				curF.Modifies = append(curF.Modifies, ms...)
				curF.HasMod = true
			} else {
				return nil, fmt.Errorf("%s: modifies outside func", l.where)
			}
		case "loop":
			if curF == nil {
				return nil, fmt.Errorf("%s: loop outside func", l.where)
			}
			curL = &LoopSpec{Selector: rest, Where: l.where}
			curF.Loops = append(curF.Loops, curL)
		case "invariant", "decreases", "step":
			if curL == nil {
				return nil, fmt.Errorf("%s: %s outside loop", l.where, kw)
			}
			if kw == "decreases" && strings.TrimSpace(rest) == "*" {
				curL.Decreases = &Clause{Kind: "decreases", Src: "*", Where: l.where, Props: curF.Props, Expr: &SExpr{Op: "int", Name: "0"}}
				continue
			}
			c, err := parseClause(kw, rest, l.where, curF.Props)
			if err != nil {
				return nil, err
			}
			switch kw {
			case "invariant":
				curL.Invariants = append(curL.Invariants, c)
			case "step":
				curL.Steps = append(curL.Steps, c)
			default:
				curL.Decreases = c
			}
		case "spec":
			// spec [rec] func name(a int, b string) type = expr
			sfn, err := parseSpecFunc(rest, l.where, pkg)
			if err != nil {
				return nil, err
			}
			sf.SpecFuncs = append(sf.SpecFuncs, sfn)
		case "axiom":
			c, err := parseClause("axiom", rest, l.where, nil)
			if err != nil {
				return nil, err
			}
			sf.Axioms = append(sf.Axioms, &Axiom{Name: c.Name, Expr: c.Expr, Pkg: pkg, Where: l.where})
		case "lemma":
			// lemma name(a int, b string)
			name, params, err := parseSig(rest, l.where)
			if err != nil {
				return nil, err
			}
			curLemma = &Lemma{Name: name, Params: params, Pkg: pkg, Where: l.where}
			curF, curL = nil, nil
			sf.Lemmas = append(sf.Lemmas, curLemma)
		default:
			return nil, fmt.Errorf("%s: unknown contract keyword %q", l.where, kw)
		}
	}
	return sf, nil
}

func parseSig(s, where string) (string, []SVar, error) {
	op := strings.Index(s, "(")
	cl := strings.LastIndex(s, ")")
	if op < 0 || cl < op {
		return "", nil, fmt.Errorf("%s: bad signature %q", where, s)
	}
	name := strings.TrimSpace(s[:op])
	var params []SVar
	for _, p := range strings.Split(s[op+1:cl], ",") {
		p = strings.TrimSpace(p)
		if p == "" {
			continue
		}
		f := strings.Fields(p)
		if len(f) != 2 {
			return "", nil, fmt.Errorf("%s: bad parameter %q", where, p)
		}
		params = append(params, SVar{f[0], f[1]})
	}
	return name, params, nil
}

func parseSpecFunc(rest, where, pkg string) (*SpecFunc, error) {
	rec := false
	if strings.HasPrefix(rest, "rec ") {
		rec = true
		rest = strings.TrimSpace(rest[4:])
	}
	if !strings.HasPrefix(rest, "func ") {
		return nil, fmt.Errorf("%s: expected 'spec [rec] func'", where)
	}
	rest = strings.TrimSpace(rest[5:])
	eqi := strings.Index(rest, " = ")
	if eqi < 0 {
		return nil, fmt.Errorf("%s: spec func without body", where)
	}
	head := strings.TrimSpace(rest[:eqi])
	body := strings.TrimSpace(rest[eqi+3:])
	cl := strings.LastIndex(head, ")")
	ret := strings.TrimSpace(head[cl+1:])
	name, params, err := parseSig(head[:cl+1], where)
	if err != nil {
		return nil, err
	}
	e, err := parseSpecExpr(body)
	if err != nil {
		return nil, fmt.Errorf("%s: %v", where, err)
	}
	return &SpecFunc{Name: name, Params: params, Ret: ret, Body: e, Rec: rec, Pkg: pkg, Where: where}, nil
}
