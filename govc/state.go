package main

// Symbolic state: values, locations, heaps, VC command log.

import (
	"fmt"
	"go/types"
	"sort"
	"strings"

	"golang.org/x/tools/go/ssa"
)

// Val is a symbolic Go value: one SMT term per leaf of shapeOf(T).
type Val struct {
	T      types.Type
	Terms  []string
	Loc    *Loc    // pointer values that are symbolic locations rather than plain heap refs
	Const  *string // statically known string constant
	Elems  []Val   // statically known elements (literal slices / varargs)
	Box    *Val    // interface values: statically known dynamic value
	Origin *Loc    // slices: location the value was loaded from (for in-place library ops such as sort)
	Shared bool          // slices: cut from another slice (shares its backing array, possibly with spare capacity)
	Fn     *ssa.Function // function values that are statically known
	Binds  []Val         // closure bindings
}

type Sel struct {
	Field   int    // struct field index, or -1
	Index   string // SMT index term when Field == -1
	ConstIx int    // constant index (>=0) if statically known
	T       types.Type // type of the container being selected from
}

type Loc struct {
	Cell   *ssa.Alloc  // local cell root
	Global *ssa.Global // package-level variable root
	Det    *Val        // detached root: a slice value without a known home (loads only)
	Ref    string      // heap root
	RootT  types.Type  // pointee type at root
	Path   []Sel
}

type iterState struct {
	MapRef string
	MapT   *types.Map
	Seen   string // Array K Bool
	Count  string // number of keys visited so far
}

type Snapshot struct {
	Epoch int
	Heaps map[string]string
	Alloc string
	Cells map[*ssa.Alloc]Val
	Iters map[*ssa.Range]iterState
	Ghost map[string]Val
}

type loopFrame struct {
	L        *Loop
	Pre      *Snapshot // state just before first entry (for frames / old_loop)
	Head     *Snapshot // state at the head of this iteration (after havoc + assume inv)
	Measure  string    // value of decreases expression at head
	Frame    *frameSpec
}

// frameSpec: per heap leaf-group (base heap name), either whole or a list of refs (terms evaluated in the frame's pre-state)
type frameSpec struct {
	Whole    map[string]bool
	Refs     map[string][]string
	AllocPre string
	Desc     string
	Unrestricted bool // no modifies clause given: anything may change
	Ghost        map[string]bool
}

type Obligation struct {
	ID      string
	Func    string
	Kind    string // post call-pre invariant-entry invariant-preserved decreases safety frame assert vacuity
	Name    string
	Props   []string
	Where   string
	Path    string
	Cmds    []string // prefix commands (declarations + assumptions)
	Goal    string
	Expect  string // "unsat" normally; "sat" for vacuity guards
	Trivial bool
	// results
	Status string // discharged failed
	Solver string
	Time   float64
	Model  string
	Detail string
	Spec   string // clause source text
	Inputs []string // names of entry constants for model extraction
	File   string
	NoModel bool
}

type State struct {
	eng   *Engine
	fn    *ssa.Function
	spec  *FuncSpec
	cmds  []string
	regs  map[ssa.Value]Val
	cells map[*ssa.Alloc]Val
	iters map[*ssa.Range]iterState
	heaps map[string]string
	ghost map[string]Val
	alloc string
	loops []*loopFrame
	entry *Snapshot
	entryVars map[string]Val
	prev  *ssa.BasicBlock
	trace []string
	coll  *collector
	fnFrame *frameSpec
	dead  bool
	defers []deferred
	inputs []string
	depth int
	epoch int
	epochAlloc string
	sentinels []string
	deferArgs [][]Val
	pendingRefs []string
	allocTags    map[string]bool // dynamic types of the objects created since function entry
	allocUnknown bool
	summaryFor   string
	code *ssa.Function // function whose instructions are being executed (differs from fn inside an inlined helper)
	inl  []inlineFrame // call stack of inlined (contract-less) helper functions
}

// inlineFrame: where to continue in the caller when an inlined helper returns.
type inlineFrame struct {
	code      *ssa.Function
	block     *ssa.BasicBlock
	idx       int // index of the call instruction in block
	call      *ssa.Call
	loopBase  int
	defers    []deferred
	deferArgs [][]Val
}

type deferred struct {
	call *ssa.CallCommon
	instr ssa.Instruction
}

type collector struct {
	obls  []*Obligation
	paths int
	unsupported []string
	notes []string
}

func (s *State) fork() *State {
	n := *s
	n.cmds = append([]string(nil), s.cmds...)
	n.regs = make(map[ssa.Value]Val, len(s.regs))
	for k, v := range s.regs {
		n.regs[k] = v
	}
	n.cells = make(map[*ssa.Alloc]Val, len(s.cells))
	for k, v := range s.cells {
		n.cells[k] = v
	}
	n.iters = make(map[*ssa.Range]iterState, len(s.iters))
	for k, v := range s.iters {
		n.iters[k] = v
	}
	n.heaps = make(map[string]string, len(s.heaps))
	for k, v := range s.heaps {
		n.heaps[k] = v
	}
	n.ghost = make(map[string]Val, len(s.ghost))
	for k, v := range s.ghost {
		n.ghost[k] = v
	}
	n.loops = append([]*loopFrame(nil), s.loops...)
	n.trace = append([]string(nil), s.trace...)
	n.defers = append([]deferred(nil), s.defers...)
	n.inl = append([]inlineFrame(nil), s.inl...)
	return &n
}

func (s *State) snapshot() *Snapshot {
	sn := &Snapshot{Epoch: s.epoch, Heaps: map[string]string{}, Alloc: s.alloc, Cells: map[*ssa.Alloc]Val{}, Iters: map[*ssa.Range]iterState{}, Ghost: map[string]Val{}}
	for k, v := range s.heaps {
		sn.Heaps[k] = v
	}
	for k, v := range s.cells {
		sn.Cells[k] = v
	}
	for k, v := range s.iters {
		sn.Iters[k] = v
	}
	for k, v := range s.ghost {
		sn.Ghost[k] = v
	}
	return sn
}

// ---- fresh names, declarations, assumptions --------------------------------

func (s *State) fresh(hint, sort string) string {
	s.eng.counter++
	name := sym(fmt.Sprintf("%s!%d", hint, s.eng.counter))
	s.cmds = append(s.cmds, fmt.Sprintf("(declare-const %s %s)", name, sort))
	return name
}

func (s *State) assume(f string) {
	if f == "true" {
		return
	}
	s.cmds = append(s.cmds, "(assert "+f+")")
}

// define introduces a named constant equal to term (keeps terms small).
func (s *State) define(hint, sort, term string) string {
	if len(term) < 40 {
		return term
	}
	c := s.fresh(hint, sort)
	s.assume(eq(c, term))
	return c
}

// defineCached is define with sharing: the same term on the same path gets the same name.
func (s *State) defineCached(hint, sort, term string) string {
	key := "(assert (= "
	for i := len(s.cmds) - 1; i >= 0 && i > len(s.cmds)-4000; i-- {
		c := s.cmds[i]
		if strings.HasPrefix(c, key) && strings.HasSuffix(c, " "+term+"))") {
			name := c[len(key) : len(c)-len(term)-3]
			if !strings.ContainsAny(name, " ()") || (strings.HasPrefix(name, "|") && strings.Count(name, "|") == 2) {
				return name
			}
		}
	}
	return s.define(hint, sort, term)
}

func (s *State) freshVal(hint string, t types.Type) Val {
	sh := shapeOf(t)
	v := Val{T: t}
	for _, l := range sh {
		v.Terms = append(v.Terms, s.fresh(hint+l.Name, l.Sort))
	}
	s.assumeTypeFacts(v)
	return v
}

const minInt = "(- 9223372036854775808)"
const maxInt = "9223372036854775807"

// maxLen: no slice or string is longer than 2^56 elements (address-space bound; listed assumption)
const maxLen = "72057594037927936"

// assumeTypeFacts adds the facts every well-typed Go value satisfies.
func (s *State) assumeTypeFacts(v Val) {
	s.typeFacts(v.T, v.Terms, s.alloc)
}

func (s *State) typeFacts(t types.Type, terms []string, alloc string) {
	switch u := t.Underlying().(type) {
	case *types.Basic:
		if u.Info()&types.IsInteger != 0 {
			lo, hi := intRange(u)
			if lo != "" {
				s.assume(and(app("<=", lo, terms[0]), app("<=", terms[0], hi)))
			}
		}
		if u.Info()&types.IsString != 0 && !strings.HasPrefix(terms[0], "\"") {
			// no string is longer than the address space allows
			s.assume(app("<=", app("str.len", terms[0]), maxLen))
		}
	case *types.Pointer, *types.Map, *types.Chan, *types.Signature, *types.Interface:
		if alloc != "" {
			s.assume(and(app("<=", "0", terms[0]), app("<", terms[0], alloc)))
		}
		if tag := refTag(t); tag != "" {
			s.assume(or(eq(terms[0], "0"), eq(app("rtype", terms[0]), strLit(tag))))
		}
	case *types.Slice:
		s.assume(and(app("<=", "0", terms[0]), app("<=", terms[0], maxLen)))
		s.assume(implies(terms[1], eq(terms[0], "0")))
		// elements: refs inside arrays are constrained on load
	case *types.Struct:
		for i := 0; i < u.NumFields(); i++ {
			lo, hi := fieldRange(u, i)
			s.typeFacts(u.Field(i).Type(), terms[lo:hi], alloc)
		}
	case *types.Tuple:
		for i := 0; i < u.Len(); i++ {
			lo, hi := tupleRange(u, i)
			s.typeFacts(u.At(i).Type(), terms[lo:hi], alloc)
		}
	}
}

func intRange(u *types.Basic) (string, string) {
	switch u.Kind() {
	case types.Int, types.Int64, types.UntypedInt:
		return minInt, maxInt
	case types.Int32, types.UntypedRune:
		return "(- 2147483648)", "2147483647"
	case types.Int16:
		return "(- 32768)", "32767"
	case types.Int8:
		return "(- 128)", "127"
	case types.Uint, types.Uint64, types.Uintptr:
		return "0", "18446744073709551615"
	case types.Uint32:
		return "0", "4294967295"
	case types.Uint16:
		return "0", "65535"
	case types.Uint8:
		return "0", "255"
	}
	return "", ""
}

func zeroVal(t types.Type) Val {
	v := Val{T: t}
	for _, l := range shapeOf(t) {
		v.Terms = append(v.Terms, zeroOfSort(l.Sort))
	}
	// nil slice: $nil = true
	setNilFlags(t, v.Terms)
	return v
}

func setNilFlags(t types.Type, terms []string) {
	switch u := t.Underlying().(type) {
	case *types.Slice:
		terms[1] = "true"
	case *types.Struct:
		for i := 0; i < u.NumFields(); i++ {
			lo, hi := fieldRange(u, i)
			setNilFlags(u.Field(i).Type(), terms[lo:hi])
		}
	}
}

// ---- heaps -----------------------------------------------------------------

func typeKey(t types.Type) string {
	return types.TypeString(t, func(p *types.Package) string { return p.Name() })
}

// heapBase returns the base heap name for a field of a struct type.
func fieldHeapBase(named types.Type, st *types.Struct, i int) string {
	return typeKey(named) + "." + st.Field(i).Name()
}

func cellHeapBase(t types.Type) string { return "cell<" + typeKey(t) + ">" }

// heap leaves for a (base, type)
type heapLeaf struct {
	Name string
	Sort string // array sort Int -> leaf sort
	Elem string
	Ref  bool
	Tag  string
	ArrRef bool
	MapValRef string // for map value heaps whose values are references: the key sort
}

func heapLeaves(base string, t types.Type) []heapLeaf {
	var out []heapLeaf
	for _, l := range shapeOf(t) {
		out = append(out, heapLeaf{Name: base + l.Name, Sort: arrSort(sInt, l.Sort), Elem: l.Sort, Ref: l.Ref, Tag: l.Tag, ArrRef: l.ArrRef})
	}
	return out
}

func (s *State) heapGet(hl heapLeaf) string {
	if t, ok := s.heaps[hl.Name]; ok {
		return t
	}
	// first use on this path: the entry-state heap constant (or the constant of the last havoc-all epoch)
	c := sym(fmt.Sprintf("H%d:%s", s.epoch, hl.Name))
	s.cmds = append(s.cmds, fmt.Sprintf("(declare-const %s %s)", c, hl.Sort))
	s.heaps[hl.Name] = c
	s.eng.heapInfo[hl.Name] = hl
	if s.epoch == 0 {
		s.closureFact(c, hl, s.entryAlloc())
	} else {
		s.closureFact(c, hl, s.epochAlloc)
	}
	return c
}

func (s *State) entryAlloc() string {
	if s.entry != nil {
		return s.entry.Alloc
	}
	return s.alloc
}

// closureFact: every reference stored in heap version h is allocated w.r.t. alloc.
func (s *State) closureFact(h string, hl heapLeaf, alloc string) {
	if strings.HasPrefix(hl.Name, "mapcard<") {
		s.assume(fmt.Sprintf("(forall ((r!c Int)) (! (and (<= 0 (select %s r!c)) (<= (select %s r!c) %s)) :pattern ((select %s r!c))))", h, h, maxLen, h))
		return
	}
	if strings.HasSuffix(hl.Name, "$len") && hl.Elem == sInt {
		s.assume(fmt.Sprintf("(forall ((r!c Int)) (! (and (<= 0 (select %s r!c)) (<= (select %s r!c) %s)) :pattern ((select %s r!c))))", h, h, maxLen, h))
		return
	}
	if alloc != "" && hl.MapValRef != "" {
		ty := "true"
		if hl.Tag != "" {
			ty = fmt.Sprintf("(or (= (select (select %s r!c) k!c) 0) (= (rtype (select (select %s r!c) k!c)) %s))", h, h, strLit(hl.Tag))
		}
		s.assume(fmt.Sprintf("(forall ((r!c Int) (k!c %s)) (! (=> (< r!c %s) (and (<= 0 (select (select %s r!c) k!c)) (< (select (select %s r!c) k!c) %s) %s)) :pattern ((select (select %s r!c) k!c))))",
			hl.MapValRef, alloc, h, h, alloc, ty, h))
		return
	}
	if alloc != "" && hl.ArrRef && hl.Elem == arrSort(sInt, sInt) {
		// slice-of-references field: every element is an allocated object of the element type
		ty := "true"
		if hl.Tag != "" {
			ty = fmt.Sprintf("(or (= (select (select %s r!c) i!c) 0) (= (rtype (select (select %s r!c) i!c)) %s))", h, h, strLit(hl.Tag))
		}
		s.assume(fmt.Sprintf("(forall ((r!c Int) (i!c Int)) (! (=> (< r!c %s) (and (<= 0 (select (select %s r!c) i!c)) (< (select (select %s r!c) i!c) %s) %s)) :pattern ((select (select %s r!c) i!c))))",
			alloc, h, h, alloc, ty, h))
		return
	}
	if alloc == "" || !hl.Ref {
		return
	}
	ty := "true"
	if hl.Tag != "" {
		ty = fmt.Sprintf("(or (= (select %s r!c) 0) (= (rtype (select %s r!c)) %s))", h, h, strLit(hl.Tag))
	}
	// only objects that exist (r < alloc) are constrained: fields of objects allocated later (e.g. by a callee) may point to newer objects
	s.assume(fmt.Sprintf("(forall ((r!c Int)) (! (=> (< r!c %s) (and (<= 0 (select %s r!c)) (< (select %s r!c) %s) %s)) :pattern ((select %s r!c))))", alloc, h, h, alloc, ty, h))
}

// heapIn returns the heap term in a snapshot, falling back to the entry constant.
func (s *State) heapIn(sn *Snapshot, hl heapLeaf) string {
	cur := s.heapGet(hl) // ensures the entry constant is declared on this path
	if sn == nil {
		return cur
	}
	if t, ok := sn.Heaps[hl.Name]; ok {
		return t
	}
	// not touched before the snapshot was taken: equals the constant of the snapshot's epoch
	c := sym(fmt.Sprintf("H%d:%s", sn.Epoch, hl.Name))
	if sn.Epoch != s.epoch || cur != c {
		decl := fmt.Sprintf("(declare-const %s %s)", c, hl.Sort)
		found := false
		for _, cm := range s.cmds {
			if cm == decl {
				found = true
				break
			}
		}
		if !found {
			s.cmds = append(s.cmds, decl)
		}
	}
	return c
}

func (s *State) heapSet(hl heapLeaf, term string) {
	s.heapGet(hl)
	c := s.fresh("H:"+hl.Name, hl.Sort)
	s.assume(eq(c, term))
	s.heaps[hl.Name] = c
}

func (s *State) heapHavoc(hl heapLeaf) string {
	s.heapGet(hl)
	c := s.fresh("H:"+hl.Name, hl.Sort)
	s.heaps[hl.Name] = c
	s.closureFact(c, hl, s.alloc)
	return c
}

func (s *State) loadHeap(base string, t types.Type, ref string) Val {
	v := Val{T: t}
	for _, hl := range heapLeaves(base, t) {
		v.Terms = append(v.Terms, sel(s.heapGet(hl), ref))
	}
	return v
}

func (s *State) loadHeapIn(sn *Snapshot, base string, t types.Type, ref string) Val {
	v := Val{T: t}
	for _, hl := range heapLeaves(base, t) {
		v.Terms = append(v.Terms, sel(s.heapIn(sn, hl), ref))
	}
	return v
}

func (s *State) storeHeap(base string, t types.Type, ref string, v Val) {
	for i, hl := range heapLeaves(base, t) {
		cur := s.heapGet(hl)
		s.heapSet(hl, store(cur, ref, v.Terms[i]))
	}
}

// allocRef returns a fresh non-nil reference and advances the allocation frontier.
func (s *State) allocRef(hint string, tag ...string) string {
	r := s.fresh(hint, sInt)
	s.assume(eq(r, s.alloc))
	if len(tag) > 0 && tag[0] != "" {
		s.assume(eq(app("rtype", r), strLit(tag[0])))
		s.noteAllocTags(tag[0])
	} else {
		s.noteAllocTags("$hidden")
		s.assume(eq(app("rtype", r), strLit("$hidden")))
	}
	na := s.fresh("alloc", sInt)
	s.assume(eq(na, app("+", r, "1")))
	s.alloc = na
	return r
}

// ---- obligations -------------------------------------------------------------

// sexprArgs splits "(op a b c)" into op and its top-level arguments.
func sexprArgs(t string) (string, []string) {
	if len(t) < 2 || t[0] != '(' || t[len(t)-1] != ')' {
		return "", nil
	}
	body := t[1 : len(t)-1]
	var parts []string
	d := 0
	inq := false
	bar := false
	start := 0
	for i := 0; i < len(body); i++ {
		c := body[i]
		if bar {
			if c == '|' {
				bar = false
			}
			continue
		}
		if c == '"' {
			inq = !inq
			continue
		}
		if inq {
			continue
		}
		switch c {
		case '|':
			bar = true
		case '(':
			d++
		case ')':
			d--
		case ' ', '\n', '\t':
			if d == 0 {
				if i > start {
					parts = append(parts, body[start:i])
				}
				start = i + 1
			}
		}
	}
	if start < len(body) {
		parts = append(parts, body[start:])
	}
	if len(parts) == 0 {
		return "", nil
	}
	return parts[0], parts[1:]
}

// splitGoal breaks a goal into independently checkable conjuncts: (and a b) and (=> h (and a b)).
func splitGoal(g string) []string {
	op, args := sexprArgs(g)
	switch {
	case op == "and" && len(args) > 1:
		var out []string
		for _, a := range args {
			out = append(out, splitGoal(a)...)
		}
		return out
	case op == "=>" && len(args) == 2:
		var out []string
		for _, c := range splitGoal(args[1]) {
			out = append(out, implies(args[0], c))
		}
		return out
	}
	return []string{g}
}

func (s *State) oblige(kind, name string, props []string, goal, where, specSrc string) {
	if s.dead {
		return
	}
	if kind == "post" || kind == "invariant-preserved" || kind == "invariant-entry" || kind == "step" || kind == "call-pre" || kind == "atcall" {
		if parts := splitGoal(goal); len(parts) > 1 && len(parts) <= 12 {
			for i, p := range parts {
				s.oblige1(kind, fmt.Sprintf("%s.%d", name, i+1), props, p, where, specSrc)
			}
			return
		}
	}
	s.oblige1(kind, name, props, goal, where, specSrc)
}

func (s *State) oblige1(kind, name string, props []string, goal, where, specSrc string) {
	if s.dead {
		return
	}
	o := &Obligation{
		Func: s.eng.fnKey(s.fn), Kind: kind, Name: name, Props: props, Where: where,
		Path: strings.Join(s.trace, ">"), Goal: goal, Expect: "unsat", Spec: specSrc,
		Inputs: s.inputs,
	}
	if goal == "true" {
		o.Trivial = true
	} else {
		o.Cmds = append([]string(nil), s.cmds...)
	}
	s.coll.obls = append(s.coll.obls, o)
	// after asserting, the fact may be assumed on the rest of the path (only useful for checks in the middle of a path)
	switch kind {
	case "post", "invariant-preserved", "decreases", "step", "termination", "map-order":
	default:
		s.assume(goal)
	}
}

func sortedKeys(m map[string]string) []string {
	ks := make([]string, 0, len(m))
	for k := range m {
		ks = append(ks, k)
	}
	sort.Strings(ks)
	return ks
}
