package main

// Path-based symbolic execution of go/ssa (naive form) with loop cutting at invariants
// and modular treatment of calls (callee contract only).

import (
	"fmt"
	"go/constant"
	"os"
	"go/token"
	"go/types"
	"strings"

	"golang.org/x/tools/go/ssa"
)

type unsupported struct{ msg string }

func (s *State) unsupported(format string, a ...interface{}) {
	panic(unsupported{fmt.Sprintf(format, a...)})
}

// checkOnlyFlows: every use of the parameter (through its spill cell) is an argument of a call to the named function.
func (e *Engine) checkOnlyFlows(f *ssa.Function, fl FlowSpec) (bool, string) {
	var param *ssa.Parameter
	for _, p := range f.Params {
		if p.Name() == fl.Param {
			param = p
		}
	}
	if param == nil {
		return false, "no such parameter"
	}
	var bad string
	var visit func(v ssa.Value, depth int)
	visit = func(v ssa.Value, depth int) {
		if depth > 4 || v.Referrers() == nil {
			return
		}
		for _, r := range *v.Referrers() {
			switch r := r.(type) {
			case *ssa.Store:
				if r.Val == v {
					// spilled into a cell: follow the loads of that cell
					if a, ok := r.Addr.(*ssa.Alloc); ok {
						visit(a, depth+1)
					} else {
						bad = "stored to " + r.Addr.Name() + " at " + e.pos(r.Pos())
					}
				}
			case *ssa.UnOp:
				visit(r, depth+1)
			case *ssa.DebugRef:
			case ssa.CallInstruction:
				cal := r.Common().StaticCallee()
				if cal == nil || cal.Name() != fl.Callee {
					bad = "used by " + r.String() + " at " + e.pos(r.Pos())
				}
			default:
				bad = fmt.Sprintf("used by %s at %s", r.String(), e.pos(r.Pos()))
			}
		}
	}
	visit(param, 0)
	return bad == "", bad
}

// verifyLemma checks a standalone lemma: for all parameter values and all heaps, requires ==> ensures.
func (e *Engine) verifyLemma(lm *Lemma) []*Obligation {
	coll := &collector{}
	e.counter = 0
	key := lm.Pkg + ".lemma " + lm.Name
	s := &State{eng: e, regs: map[ssa.Value]Val{}, cells: map[*ssa.Alloc]Val{}, iters: map[*ssa.Range]iterState{},
		heaps: map[string]string{}, ghost: map[string]Val{}, coll: coll, entryVars: map[string]Val{}}
	// a dummy function context is needed for obligation bookkeeping
	for _, f := range e.funcs {
		if f.Pkg != nil && f.Pkg.Pkg.Name() == lm.Pkg {
			s.fn = f
			break
		}
	}
	s.cmds = append(s.cmds, "; lemma "+key)
	s.alloc = s.fresh("alloc0", sInt)
	s.assume(app("<", "0", s.alloc))
	s.entry = &Snapshot{Heaps: map[string]string{}, Alloc: s.alloc, Cells: map[*ssa.Alloc]Val{}, Iters: map[*ssa.Range]iterState{}, Ghost: map[string]Val{}}
	env := &SpecEnv{st: s, old: s.entry, vars: map[string]Val{}, pkg: e.typesPkgs[lm.Pkg]}
	for _, p := range lm.Params {
		p := p
		if err := safeSpec(func() { env.vars[p.Name] = s.freshVal("in:"+p.Name, env.resolveType(p.Type)) }); err != nil {
			coll.obls = append(coll.obls, &Obligation{Func: key, Kind: "spec-error", Name: "spec-error:param", Props: lm.Props, Goal: "false", Expect: "unsat", Where: lm.Where, Detail: err.Error()})
		}
	}
	for _, c := range lm.Requires {
		c := c
		if err := safeSpec(func() { s.assume(env.evalBool(c.Expr)) }); err != nil {
			coll.obls = append(coll.obls, &Obligation{Func: key, Kind: "spec-error", Name: "spec-error:" + c.Name, Props: lm.Props, Goal: "false", Expect: "unsat", Where: c.Where, Detail: err.Error()})
		}
	}
	for _, c := range lm.Ensures {
		c := c
		err := safeSpec(func() {
			g := env.evalBool(c.Expr)
			o := &Obligation{Func: key, Kind: "lemma", Name: c.Name, Props: c.Props, Where: c.Where, Goal: g, Expect: "unsat", Spec: c.Src, Cmds: append([]string(nil), s.cmds...)}
			coll.obls = append(coll.obls, o)
		})
		if err != nil {
			coll.obls = append(coll.obls, &Obligation{Func: key, Kind: "spec-error", Name: "spec-error:" + c.Name, Props: lm.Props, Goal: "false", Expect: "unsat", Where: c.Where, Detail: err.Error()})
		}
	}
	return coll.obls
}

// verifyFunction generates all obligations of f against its contract.
func (e *Engine) verifyFunction(f *ssa.Function, spec *FuncSpec) *collector {
	coll := &collector{}
	e.counter = 0 // names are unique per function: the queries of a function do not depend on what was generated before it
	if spec != nil && spec.Trusted {
		coll.notes = append(coll.notes, "trusted contract (body not verified): "+e.fnKey(f))
		return coll
	}
	for _, bad := range e.bindLoopSpecs(f, spec) {
		coll.obls = append(coll.obls, &Obligation{Func: e.fnKey(f), Kind: "anchor", Name: "anchor:" + bad.name, Props: bad.props,
			Goal: "false", Expect: "unsat", Cmds: nil, Where: bad.where, Detail: "contract anchor does not resolve to a loop of the current source"})
	}
	if spec != nil {
		for _, fl := range spec.Flows {
			ok, why := e.checkOnlyFlows(f, fl)
			o := &Obligation{Func: e.fnKey(f), Kind: "dataflow", Name: "onlyflows:" + fl.Param + "->" + fl.Callee, Props: fl.Props,
				Goal: "true", Expect: "unsat", Where: fl.Where, Trivial: ok, Spec: "parameter " + fl.Param + " is used only as an argument of " + fl.Callee}
			if !ok {
				o.Goal = "false"
				o.Kind = "anchor" // decided syntactically: reported as failed without a solver
				o.Detail = why
			}
			coll.obls = append(coll.obls, o)
		}
	}
	s := &State{eng: e, fn: f, spec: spec, regs: map[ssa.Value]Val{}, cells: map[*ssa.Alloc]Val{}, iters: map[*ssa.Range]iterState{},
		heaps: map[string]string{}, ghost: map[string]Val{}, coll: coll, entryVars: map[string]Val{}}
	s.cmds = append(s.cmds, "; function "+e.fnKey(f))
	s.alloc = s.fresh("alloc0", sInt)
	s.assume(app("<", "0", s.alloc))
	s.entry = &Snapshot{Heaps: map[string]string{}, Alloc: s.alloc, Cells: map[*ssa.Alloc]Val{}, Iters: map[*ssa.Range]iterState{}, Ghost: map[string]Val{}}
	// parameters
	for _, p := range f.Params {
		v := s.freshVal("in:"+p.Name(), p.Type())
		s.regs[p] = v
		s.entryVars[p.Name()] = v
		s.inputs = append(s.inputs, v.Terms...)
	}
	for _, fv := range f.FreeVars {
		v := s.freshVal("fv:"+fv.Name(), fv.Type())
		// a free variable is the address of the captured variable: never nil
		s.assume(not(eq(v.Terms[0], "0")))
		s.regs[fv] = v
		// free variables are pointers to the captured variable; expose the captured value by name
		s.entryVars["&"+fv.Name()] = v
	}
	// preconditions
	env := s.specEnv()
	env.vars = s.entryVars
	if spec != nil && spec.Implements != "" && !spec.merged {
		// the function must also satisfy the contract of the named function type
		ft := e.specs[f.Pkg.Pkg.Name()+"."+spec.Implements]
		if ft == nil {
			coll.obls = append(coll.obls, &Obligation{Func: e.fnKey(f), Kind: "anchor", Name: "anchor:implements " + spec.Implements, Props: specProps(spec),
				Goal: "false", Expect: "unsat", Where: spec.Where, Detail: "unknown function-type contract"})
		} else {
			spec.Requires = append(append([]*Clause(nil), ft.Requires...), spec.Requires...)
			spec.Ensures = append(append([]*Clause(nil), spec.Ensures...), ft.Ensures...)
			if !spec.HasMod {
				spec.Modifies, spec.HasMod = ft.Modifies, ft.HasMod
			}
			spec.Props = unionProps(spec.Props, ft.Props)
			// positional parameter names of the function type are bound to this function's parameters
			for i, n := range ft.ftParams {
				if i < len(f.Params) {
					s.entryVars[n] = s.regs[f.Params[i]]
				}
			}
			spec.ftParams = ft.ftParams
		}
		spec.merged = true
	} else if spec != nil && spec.merged {
		for i, n := range spec.ftParams {
			if i < len(f.Params) {
				s.entryVars[n] = s.regs[f.Params[i]]
			}
		}
	}
	if spec != nil {
		for _, c := range spec.Requires {
			c := c
			err := safeSpec(func() { s.assume(env.evalBool(c.Expr)) })
			if err != nil {
				coll.specErr(e, f, c, err)
				coll.obls[len(coll.obls)-1].Props = s.structProps()
			}
		}
		s.fnFrame = s.buildFrame(spec.Modifies, spec.HasMod, env, "function "+spec.Name)
	} else {
		s.fnFrame = &frameSpec{Unrestricted: true}
	}
	// vacuity guard: the precondition must be satisfiable
	if spec != nil && len(spec.Requires) > 0 {
		coll.obls = append(coll.obls, &Obligation{Func: e.fnKey(f), Kind: "vacuity", Name: "pre-satisfiable", Props: unionProps(specProps(spec), allProps(spec)),
			Cmds: append([]string(nil), s.cmds...), Goal: "false", Expect: "sat", Where: spec.Where})
	}
	if spec != nil {
		for _, ac := range spec.AtCalls {
			ac.Used = false
		}
	}
	s.explore(f.Blocks[0])
	if spec != nil {
		for _, ac := range spec.AtCalls {
			if !ac.Used {
				coll.obls = append(coll.obls, &Obligation{Func: e.fnKey(f), Kind: "anchor", Name: "anchor:atcall " + ac.Callee + "/" + ac.Clause.Name, Props: ac.Clause.Props,
					Goal: "false", Expect: "unsat", Where: ac.Clause.Where, Detail: "call-site clause names a callee that is never called on any explored path", Spec: ac.Clause.Src})
			}
		}
	}
	return coll
}

func specProps(spec *FuncSpec) []string {
	if spec == nil {
		return nil
	}
	return spec.Props
}

func (c *collector) specErr(e *Engine, f *ssa.Function, cl *Clause, err error) {
	c.obls = append(c.obls, &Obligation{Func: e.fnKey(f), Kind: "spec-error", Name: "spec-error:" + cl.Name, Props: cl.Props,
		Goal: "false", Expect: "unsat", Where: cl.Where, Detail: err.Error(), Spec: cl.Src})
}

func (s *State) specEnv() *SpecEnv {
	env := &SpecEnv{st: s, old: s.entry, vars: map[string]Val{}, fn: s.fn}
	for k, v := range s.entryVars {
		if strings.HasPrefix(k, "&") {
			env.vars[k] = v // captured variables are reachable through their address everywhere
		}
	}
	if s.fn.Pkg != nil {
		env.pkg = s.fn.Pkg.Pkg
	} else if s.fn.Parent() != nil && s.fn.Parent().Pkg != nil {
		env.pkg = s.fn.Parent().Pkg.Pkg
	}
	if len(s.loops) > 0 {
		top := s.loops[len(s.loops)-1]
		env.iter = top.Head
		env.pre = top.Pre
	}
	return env
}

// explore runs a path from block b (catching unsupported constructs).
func (s *State) explore(b *ssa.BasicBlock) {
	defer func() {
		if r := recover(); r != nil {
			switch x := r.(type) {
			case unsupported:
				msg := fmt.Sprintf("%s: unsupported: %s", s.eng.fnKey(s.fn), x.msg)
				s.coll.unsupported = append(s.coll.unsupported, msg)
				s.coll.obls = append(s.coll.obls, &Obligation{Func: s.eng.fnKey(s.fn), Kind: "unsupported", Name: "unsupported", Props: s.structProps(),
					Goal: "false", Expect: "unsat", Detail: x.msg, Path: strings.Join(s.trace, ">")})
			case specErr:
				s.coll.obls = append(s.coll.obls, &Obligation{Func: s.eng.fnKey(s.fn), Kind: "spec-error", Name: "spec-error", Props: s.structProps(),
					Goal: "false", Expect: "unsat", Detail: x.msg, Path: strings.Join(s.trace, ">")})
			default:
				panic(r)
			}
		}
	}()
	s.runBlock(b)
}

func (s *State) runBlock(b *ssa.BasicBlock) {
	if s.coll.paths > s.eng.maxPaths {
		s.unsupported("path explosion (> %d paths)", s.eng.maxPaths)
	}
	if len(s.inl) > 0 {
		s.trace = append(s.trace, fmt.Sprintf("%s:%d", s.code.Name(), b.Index))
	} else {
		s.trace = append(s.trace, fmt.Sprint(b.Index))
	}
	s.runBlockFrom(b, 0)
}

// curFn: the function whose code is executing (an inlined helper, or the verified function itself).
func (s *State) curFn() *ssa.Function {
	if s.code != nil {
		return s.code
	}
	return s.fn
}

func (s *State) runBlockFrom(b *ssa.BasicBlock, from int) {
	for idx := from; idx < len(b.Instrs); idx++ {
		in := b.Instrs[idx]
		if call, ok := in.(*ssa.Call); ok {
			if callee, binds := s.inlineTarget(call.Common()); callee != nil {
				s.inlineCall(call, callee, binds, b, idx)
				return
			}
		}
		switch in := in.(type) {
		case *ssa.If:
			c := s.valueOf(in.Cond).Terms[0]
			c = s.define("c", sBool, c)
			t := s.fork()
			t.assume(c)
			t.jump(b, b.Succs[0])
			s.assume(not(c))
			s.jump(b, b.Succs[1])
			return
		case *ssa.Jump:
			s.jump(b, b.Succs[0])
			return
		case *ssa.Return:
			if len(s.inl) > 0 {
				s.inlineReturn(in)
				return
			}
			s.doReturn(in)
			s.coll.paths++
			return
		case *ssa.Panic:
			s.doPanic(s.eng.pos(in.Pos()))
			s.coll.paths++
			return
		default:
			s.exec(in)
		}
	}
}

func (s *State) jump(from, to *ssa.BasicBlock) {
	s.prev = from
	loops := s.eng.loopsOf(s.curFn())
	base := 0
	if len(s.inl) > 0 {
		base = s.inl[len(s.inl)-1].loopBase // loops of the callers are not affected by jumps inside an inlined helper
	}
	// back edge to an active loop?
	for i := len(s.loops) - 1; i >= base; i-- {
		lf := s.loops[i]
		if lf.L.Header == to {
			// inner loops are left by this jump
			for k := len(s.loops) - 1; k > i; k-- {
				s.evalSteps(s.loops[k], true, nil)
			}
			s.loops = s.loops[:i+1]
			s.closeIteration(lf)
			s.evalSteps(lf, false, nil)
			s.coll.paths++
			return
		}
	}
	// leave loops that do not contain the target
	for len(s.loops) > base && !s.loops[len(s.loops)-1].L.Region[to] {
		s.evalSteps(s.loops[len(s.loops)-1], true, nil)
		s.loops = s.loops[:len(s.loops)-1]
	}
	for _, l := range loops {
		if l.Header == to {
			s.enterLoop(l)
			break
		}
	}
	s.runBlock(to)
}

// ---- loops -------------------------------------------------------------------

func (s *State) loopInvariants(l *Loop) []*Clause {
	var cs []*Clause
	if l.Spec != nil {
		l.Spec.Used = true
		cs = append(cs, l.Spec.Invariants...)
	}
	return cs
}

func (s *State) autoInvariant(l *Loop) string {
	// range-over-slice: -1 <= idx < len (len evaluated once before the loop)
	if l.RangeIdx != nil && l.RangeLen != nil {
		idx, ok := s.cells[l.RangeIdx]
		if !ok {
			return "true"
		}
		n := s.valueOf(l.RangeLen).Terms[0]
		return and(app("<=", "(- 1)", idx.Terms[0]), or(app("<", idx.Terms[0], n), eq(idx.Terms[0], "(- 1)")))
	}
	return "true"
}

func (s *State) enterLoop(l *Loop) {
	where := s.eng.pos(l.MinPos)
	invs := s.loopInvariants(l)
	// 1. invariants hold on entry
	env := s.specEnv()
	env.lp = l
	env.pre = s.snapshot()
	for _, c := range invs {
		c := c
		err := safeSpec(func() {
			s.oblige("invariant-entry", l.Name+"/"+c.Name, c.Props, env.evalBool(c.Expr), where, c.Src)
		})
		if err != nil {
			s.coll.specErr(s.eng, s.fn, c, err)
		}
	}
	pre := s.snapshot()
	lf := &loopFrame{L: l, Pre: pre}
	if l.Spec != nil {
		lf.Frame = s.buildFrame(l.Spec.Modifies, l.Spec.HasMod, env, "loop "+l.Name)
	} else {
		lf.Frame = &frameSpec{Unrestricted: true}
	}
	// 2. havoc everything the loop may modify
	mods := s.eng.loopMods(s, l)
	for _, a := range mods.cells {
		if cur, ok := s.cells[a]; ok {
			nv := s.freshVal("loop:"+a.Comment, cur.T)
			nv.Shared = cur.Shared // a variable that held a re-sliced slice before the loop may still hold one
			s.cells[a] = nv
		} else {
			s.cells[a] = s.freshVal("loop:"+a.Comment, derefType(a.Type()))
		}
	}
	for _, r := range mods.iters {
		if it, ok := s.iters[r]; ok {
			it.Seen = s.fresh("seen", arrSort(shapeOf(it.MapT.Key())[0].Sort, sBool))
			it.Count = s.fresh("count", sInt)
			s.assume(app("<=", "0", it.Count))
			// visited keys are keys of the map (the map is not modified while it is ranged over)
			ks := shapeOf(it.MapT.Key())[0].Sort
			s.eng.counter++
			q := sym(fmt.Sprintf("q?%d", s.eng.counter))
			s.assume(fmt.Sprintf("(forall ((%s %s)) (! (=> (select %s %s) (select %s %s)) :pattern ((select %s %s))))", q, ks, it.Seen, q, s.mapDomIn(nil, it.MapT, it.MapRef), q, it.Seen, q))
			s.iters[r] = it
		}
	}
	for g := range mods.ghost {
		if g == "$mutexes" {
			// the body locks / unlocks: the lock state at the head of a later iteration is whatever the body leaves
			s.ghost[g] = Val{T: tBool, Terms: []string{s.fresh("loop:locks", arrSort(sInt, sBool))}}
			continue
		}
		if tt, decl := s.eng.ghostDecls[g]; decl {
			t := env.resolveTypeIn(tt, s.eng.ghostPkg[g])
			s.ghostGet(g, t)
		}
		if ct, isChan := s.eng.chanGhostT[g]; isChan {
			s.ghostGet(g, ct)
		} else if strings.HasPrefix(g, "$spawns_") {
			s.ghostGet(g, tInt)
		}
		if cur, ok := s.ghost[g]; ok {
			s.ghost[g] = s.freshVal("loop:"+g, cur.T)
		}
	}
	if mods.all {
		if !lf.Frame.Unrestricted {
			s.oblige("frame", "loop-havoc-all@"+l.Name, s.structProps(), "false", where, "loop calls code without a frame but declares modifies")
		}
		s.havocAll()
	} else {
		for _, base := range mods.heapBases() {
			s.havocBaseWithFrame(base, mods.heaps[base], lf.Frame, pre.Alloc)
		}
	}
	if mods.allocs {
		var tags []string
		for t := range mods.allocTags {
			tags = append(tags, t)
		}
		sortStrings(tags)
		s.bumpAllocTyped(tags, mods.allocUnknown || mods.all)
	}
	s.loops = append(s.loops, lf)
	// 3. assume invariants
	env = s.specEnv()
	env.pre = pre
	s.assume(s.autoInvariant(l))
	for _, c := range invs {
		c := c
		_ = safeSpec(func() { s.assume(env.evalBool(c.Expr)) })
	}
	lf.Head = s.snapshot()
	// determinism (C20): the order in which a map is ranged over is arbitrary; a range-over-map loop without a loop contract
	// (in particular one inside a contract-less helper) has no proved order-independent summary of what it computes
	if l.MapRange != nil && l.Spec == nil && s.spec != nil {
		s.oblige1("map-order", "unsummarised-map-range:"+l.Name+"@"+s.eng.pos(l.MinPos), []string{"C20"}, "false", where, "range over a map without a loop contract: its result may depend on the iteration order")
	}
	// termination (C19): every loop that is not a range over a slice or map needs a measure; "decreases *" states that
	// termination is deliberately not claimed (listed as an assumption)
	if l.RangeIdx == nil && l.MapRange == nil && (l.Spec == nil || l.Spec.Decreases == nil) && s.spec != nil && hasProp(allProps(s.spec), "C19") {
		s.oblige1("termination", "no-measure:"+l.Name, []string{"C19"}, "false", where, "loop without a decreases clause")
	}
	if l.Spec != nil && l.Spec.Decreases != nil && l.Spec.Decreases.Src == "*" {
		s.eng.assumptionsUsed["termination of loop "+l.Name+" in "+s.eng.fnKey(s.fn)+" is not claimed (decreases *)"] = true
	} else if l.Spec != nil && l.Spec.Decreases != nil {
		env.iter = lf.Head
		_ = safeSpec(func() { lf.Measure = s.define("measure", sInt, env.eval(l.Spec.Decreases.Expr).Terms[0]) })
	}
	// vacuity guard for the loop head
	{
		s.coll.obls = append(s.coll.obls, &Obligation{Func: s.eng.fnKey(s.fn), Kind: "vacuity", Name: "loop-head-reachable:" + l.Name, Props: s.structProps(),
			Cmds: append([]string(nil), s.cmds...), Goal: "false", Expect: "sat", Where: where, Path: strings.Join(s.trace, ">")})
	}
}

func (s *State) closeIteration(lf *loopFrame) {
	l := lf.L
	where := s.eng.pos(l.MinPos)
	env := s.specEnv()
	env.iter = lf.Head
	env.pre = lf.Pre
	for _, c := range s.loopInvariants(l) {
		c := c
		err := safeSpec(func() {
			s.oblige("invariant-preserved", l.Name+"/"+c.Name, c.Props, env.evalBool(c.Expr), where, c.Src)
		})
		if err != nil {
			s.coll.specErr(s.eng, s.fn, c, err)
		}
	}
	if l.Spec != nil && l.Spec.Decreases != nil && lf.Measure != "" && l.Spec.Decreases.Src != "*" {
		c := l.Spec.Decreases
		err := safeSpec(func() {
			m := env.eval(c.Expr).Terms[0]
			s.oblige("decreases", l.Name+"/decreases", append([]string{"C19"}, c.Props...), and(app("<=", "0", lf.Measure), app("<", m, lf.Measure)), where, c.Src)
		})
		if err != nil {
			s.coll.specErr(s.eng, s.fn, c, err)
		}
	}
}

type modSet struct {
	cells  []*ssa.Alloc
	iters  []*ssa.Range
	heaps  map[string][]heapLeaf // base -> leaves
	ghost  map[string]bool
	all    bool
	allocs bool
	allocTags    map[string]bool
	allocUnknown bool
}

func (m *modSet) heapBases() []string {
	var ks []string
	for k := range m.heaps {
		ks = append(ks, k)
	}
	sortStrings(ks)
	return ks
}

func sortStrings(a []string) {
	for i := 1; i < len(a); i++ {
		for j := i; j > 0 && a[j] < a[j-1]; j-- {
			a[j], a[j-1] = a[j-1], a[j]
		}
	}
}

// loopMods computes (syntactically) what the body of l may modify.
func (e *Engine) loopMods(s *State, l *Loop) *modSet {
	m := &modSet{heaps: map[string][]heapLeaf{}, ghost: map[string]bool{}, allocTags: map[string]bool{}}
	seenCell := map[*ssa.Alloc]bool{}
	addBase := func(base string, t types.Type) {
		if _, ok := m.heaps[base]; !ok {
			m.heaps[base] = heapLeaves(base, t)
		}
	}
	for _, b := range l.Header.Parent().Blocks {
		if !l.Body[b] {
			continue
		}
		for _, in := range b.Instrs {
			e.instrMods(s, in, m, seenCell, addBase, 0)
		}
	}
	return m
}


// instrMods adds what one instruction may modify (used for loop bodies and for the bodies of inlined helpers).
func (e *Engine) instrMods(s *State, in ssa.Instruction, m *modSet, seenCell map[*ssa.Alloc]bool, addBase func(string, types.Type), depth int) {
	switch in := in.(type) {
	case *ssa.Alloc:
		m.allocs = true
		m.allocTags[typeKey(derefType(in.Type()))] = true
		if e.isLocalCell(in) && !seenCell[in] {
			seenCell[in] = true
			m.cells = append(m.cells, in)
		}
	case *ssa.Store:
		e.addrMods(in.Addr, m, seenCell, addBase)
	case *ssa.MapUpdate:
		mt := in.Map.Type().Underlying().(*types.Map)
		for _, hb := range mapHeapBases(mt) {
			m.heaps[hb.base] = hb.leaves
		}
	case *ssa.Next:
		if r, ok := in.Iter.(*ssa.Range); ok {
			m.iters = append(m.iters, r)
		}
	case *ssa.Send:
		if n := chanName(in.Chan); n != "" {
			m.ghost["$sends_"+n] = true
			m.ghost["$sent_"+n] = true
		}
	case *ssa.Select:
		for _, st := range in.States {
			if n := chanName(st.Chan); n != "" {
				m.ghost["$recvs_"+n] = true
				m.ghost["$received_"+n] = true
			}
		}
	case *ssa.UnOp:
		if in.Op == token.ARROW {
			if n := chanName(in.X); n != "" {
				m.ghost["$recvs_"+n] = true
				m.ghost["$received_"+n] = true
			}
		}
	case *ssa.Go:
		m.allocs = true
		calName := ""
		if cal := in.Common().StaticCallee(); cal != nil {
			calName = cal.Name()
		} else if mc, ok := in.Common().Value.(*ssa.MakeClosure); ok {
			calName = mc.Fn.Name()
		}
		if calName != "" {
			m.ghost["$spawns_"+calName] = true
			for i := range in.Common().Args {
				m.ghost[fmt.Sprintf("$spawnarg_%s_%d", calName, i)] = true
			}
		}
	case *ssa.MakeMap, *ssa.MakeSlice, *ssa.MakeChan, *ssa.MakeClosure, *ssa.MakeInterface:
		m.allocs = true
		if v, ok := in.(ssa.Value); ok {
			if tg := refTag(v.Type()); tg != "" {
				m.allocTags[tg] = true
			}
		}
	case ssa.CallInstruction:
		e.callMods(s, in.Common(), m, addBase, seenCell, depth)
	}
}

func (e *Engine) addrMods(addr ssa.Value, m *modSet, seenCell map[*ssa.Alloc]bool, addBase func(string, types.Type)) {
	// walk to the root of the address expression
	v := addr
	var firstField *ssa.FieldAddr
	for {
		switch x := v.(type) {
		case *ssa.FieldAddr:
			firstField = x
			v = x.X
			continue
		case *ssa.IndexAddr:
			if _, isPtr := x.X.Type().Underlying().(*types.Pointer); isPtr {
				firstField = nil
				v = x.X
				continue
			}
			// element of a slice value: in-place store handled through Origin (local cells only)
			if u, ok := x.X.(*ssa.UnOp); ok && u.Op == token.MUL {
				firstField = nil
				v = u.X
				continue
			}
			return
		}
		break
	}
	if a, ok := v.(*ssa.Alloc); ok && e.isLocalCell(a) {
		if !seenCell[a] {
			seenCell[a] = true
			m.cells = append(m.cells, a)
		}
		return
	}
	if fv, ok := v.(*ssa.FreeVar); ok {
		// a free variable of a closure verified in place names a local cell of the enclosing function
		if a := e.capturedCell(fv); a != nil && e.isLocalCell(a) {
			if !seenCell[a] {
				seenCell[a] = true
				m.cells = append(m.cells, a)
			}
			return
		}
	}
	if _, ok := v.(*ssa.Global); ok {
		m.ghost["global:"+v.Name()] = true
		return
	}
	pt := derefType(v.Type())
	if pt == nil {
		m.all = true
		return
	}
	if st, ok := pt.Underlying().(*types.Struct); ok {
		if firstField != nil && firstField.X == v {
			addBase(fieldHeapBase(pt, st, firstField.Field), st.Field(firstField.Field).Type())
		} else if firstField != nil {
			// nested: find the FieldAddr applied directly to v
			w := addr
			for {
				if fa, ok := w.(*ssa.FieldAddr); ok {
					if fa.X == v {
						addBase(fieldHeapBase(pt, st, fa.Field), st.Field(fa.Field).Type())
						break
					}
					w = fa.X
					continue
				}
				if ia, ok := w.(*ssa.IndexAddr); ok {
					w = ia.X
					continue
				}
				break
			}
		} else {
			for i := 0; i < st.NumFields(); i++ {
				addBase(fieldHeapBase(pt, st, i), st.Field(i).Type())
			}
		}
		return
	}
	addBase(cellHeapBase(pt), pt)
}

func (e *Engine) callMods(s *State, c *ssa.CallCommon, m *modSet, addBase func(string, types.Type), seenCell map[*ssa.Alloc]bool, depth int) {
	if b, ok := c.Value.(*ssa.Builtin); ok {
		switch b.Name() {
		case "delete":
			mt := c.Args[0].Type().Underlying().(*types.Map)
			for _, hb := range mapHeapBases(mt) {
				m.heaps[hb.base] = hb.leaves
			}
		case "append":
			m.allocs = true
		}
		return
	}
	callee := c.StaticCallee()
	if callee == nil {
		if c.IsInvoke() {
			if libInvokePure(c) {
				return
			}
		}
		// a local closure called through the variable it was bound to
		if fn := localClosureOf(c.Value); fn != nil {
			if spec, ok := e.specs[e.fnKey(fn)]; ok {
				e.specMods(s, spec, fn, m, addBase)
				return
			}
		}
		if fn := localClosureOf(c.Value); fn != nil && e.inlinable(fn) && depth < maxInlineDepth {
			for _, b := range fn.Blocks {
				for _, in := range b.Instrs {
					e.instrMods(s, in, m, seenCell, addBase, depth+1)
				}
			}
			return
		}
		// dynamic call
		if ft := e.funcTypeSpec(c.Value.Type()); ft != nil {
			e.specMods(s, ft, nil, m, addBase)
			return
		}
		m.all = true
		m.allocs = true
		m.allocUnknown = true
		return
	}
	key := e.fnKey(callee)
	if spec, ok := e.specs[key]; ok {
		e.specMods(s, spec, callee, m, addBase)
		for _, pn := range spec.Inplace {
			for i, p := range callee.Params {
				if p.Name() == pn && i < len(c.Args) {
					if u, ok := c.Args[i].(*ssa.UnOp); ok && u.Op == token.MUL {
						e.addrMods(u.X, m, seenCell, addBase)
					}
				}
			}
		}
		return
	}
	if ls := libSpecFor(callee); ls != nil {
		if ls.allocs {
			m.allocs = true
		}
		for _, g := range ls.ghosts {
			m.ghost[g] = true
		}
		for _, tg := range resultTags(c) {
			m.allocTags[tg] = true
		}
		if ls.inplace {
			// in-place operation on the local the argument was loaded from
			for _, a := range c.Args {
				if u, ok := a.(*ssa.UnOp); ok && u.Op == token.MUL {
					seen := map[*ssa.Alloc]bool{}
					for _, c0 := range m.cells {
						seen[c0] = true
					}
					e.addrMods(u.X, m, seen, addBase)
				}
			}
		}
		return
	}
	if e.inlinable(callee) && depth < maxInlineDepth {
		// contract-less helper: it will be executed in place, so its body's effects are the call's effects
		for _, b := range callee.Blocks {
			for _, in := range b.Instrs {
				e.instrMods(s, in, m, seenCell, addBase, depth+1)
			}
		}
		return
	}
	if callee.Pkg != nil && e.ssaPkgs[callee.Pkg.Pkg.Name()] == callee.Pkg {
		// repository function without contract
		m.all = true
		m.allocs = true
		m.allocUnknown = true
		return
	}
	// external library function without specification: opaque, effect-free on the program's heap (same rule as at the call)
	m.allocs = true
	for _, tg := range resultTags(c) {
		m.allocTags[tg] = true
	}
}

func (e *Engine) specMods(s *State, spec *FuncSpec, callee *ssa.Function, m *modSet, addBase func(string, types.Type)) {
	if !spec.HasMod {
		m.all = true
		m.allocs = true
		m.allocUnknown = true
		return
	}
	m.allocs = true
	{
		env := s.specEnv()
		if callee != nil && callee.Pkg != nil {
			env.pkg = callee.Pkg.Pkg
		} else if p := e.typesPkgs[spec.Pkg]; p != nil {
			env.pkg = p
		}
		for _, tt := range spec.AllocTypes {
			tt := tt
			_ = safeSpec(func() { m.allocTags[typeKey(env.resolveType(tt))] = true })
		}
	}
	for _, it := range e.frameItemsStatic(s, spec, callee) {
		if it.ghost != "" {
			m.ghost[it.ghost] = true
		}
		for _, hb := range it.bases {
			m.heaps[hb.base] = hb.leaves
		}
	}
}

type heapBaseInfo struct {
	base   string
	leaves []heapLeaf
}

func mapHeapBases(mt *types.Map) []heapBaseInfo {
	k := typeKey(mt)
	ks := shapeOf(mt.Key())[0].Sort
	out := []heapBaseInfo{
		{"mapdom<" + k + ">", []heapLeaf{{Name: "mapdom<" + k + ">", Sort: arrSort(sInt, arrSort(ks, sBool)), Elem: arrSort(ks, sBool)}}},
		{"mapcard<" + k + ">", []heapLeaf{{Name: "mapcard<" + k + ">", Sort: arrSort(sInt, sInt), Elem: sInt}}},
	}
	var vl []heapLeaf
	for _, l := range shapeOf(mt.Elem()) {
		hl := heapLeaf{Name: "mapval<" + k + ">" + l.Name, Sort: arrSort(sInt, arrSort(ks, l.Sort)), Elem: arrSort(ks, l.Sort)}
		if l.Ref {
			hl.MapValRef = ks
			hl.Tag = l.Tag
		}
		vl = append(vl, hl)
	}
	out = append(out, heapBaseInfo{"mapval<" + k + ">", vl})
	return out
}

func (s *State) havocAll() {
	// variables captured by the current closure are private to the library: a callee cannot reach them
	type keep struct {
		hl  heapLeaf
		ref string
		old string
	}
	var keeps []keep
	for _, fv := range s.fn.FreeVars {
		pv, ok := s.regs[fv]
		if !ok {
			continue
		}
		pt := derefType(fv.Type())
		if pt == nil {
			continue
		}
		if _, isStruct := pt.Underlying().(*types.Struct); isStruct {
			continue
		}
		for _, hl := range heapLeaves(cellHeapBase(pt), pt) {
			keeps = append(keeps, keep{hl, pv.Terms[0], sel(s.heapGet(hl), pv.Terms[0])})
		}
	}
	if len(keeps) > 0 {
		s.eng.assumptionsUsed["variables captured by a library closure are private: calls with unknown effects do not change them"] = true
	}
	defer func() {
		for _, k := range keeps {
			s.assume(eq(sel(s.heapGet(k.hl), k.ref), k.old))
		}
	}()
	for name := range s.heaps {
		hl := s.eng.heapInfo[name]
		s.heapHavoc(hl)
	}
	// heaps not yet touched on this path keep their entry constant name; mark the epoch so that later first uses are fresh
	s.eng.counter++
	s.epoch = s.eng.counter
	s.epochAlloc = s.alloc
	for g := range s.ghost {
		if strings.HasPrefix(g, "global:") {
			s.ghost[g] = s.freshVal(g, s.ghost[g].T)
		}
	}
	env := s.specEnv()
	for g, tt := range s.eng.ghostDecls {
		if s.eng.localGhost[g] {
			continue
		}
		t := env.resolveTypeIn(tt, s.eng.ghostPkg[g])
		s.ghostGet(g, t)
		s.ghost[g] = s.freshVal("ghost:"+g, t)
	}
}

// havocBaseWithFrame replaces the heap leaves of base by fresh versions that agree with the
// old versions on every pre-existing object outside the frame's listed references.
func (s *State) havocBaseWithFrame(base string, leaves []heapLeaf, fr *frameSpec, allocPre string) {
	for _, hl := range leaves {
		old := s.heapGet(hl)
		nw := s.heapHavoc(hl)
		if fr == nil || fr.Unrestricted || fr.Whole[base] {
			continue
		}
		conds := []string{app("<", "r!f", allocPre)}
		for _, r := range fr.Refs[base] {
			conds = append(conds, not(eq("r!f", r)))
		}
		s.assume(fmt.Sprintf("(forall ((r!f Int)) (! (=> %s (= (select %s r!f) (select %s r!f))) :pattern ((select %s r!f))))", and(conds...), nw, old, nw))
	}
}

// ---- frames -------------------------------------------------------------------

type frameItem struct {
	ghost string
	whole bool
	ref   string
	bases []heapBaseInfo
	src   string
}

// evalFrameItems evaluates modifies items in env.
func (s *State) evalFrameItems(items []*SExpr, env *SpecEnv) []frameItem {
	var out []frameItem
	for _, it := range items {
		it := it
		err := safeSpec(func() { out = append(out, s.evalFrameItem(it, env)) })
		if err != nil {
			s.coll.obls = append(s.coll.obls, &Obligation{Func: s.eng.fnKey(s.fn), Kind: "spec-error", Name: "spec-error:modifies", Props: s.defaultProps(),
				Goal: "false", Expect: "unsat", Detail: err.Error(), Spec: it.String()})
		}
	}
	return out
}

func (s *State) evalFrameItem(it *SExpr, env *SpecEnv) frameItem {
	fi := frameItem{src: it.String()}
	if it.Op == "ident" && strings.HasPrefix(it.Name, "$") {
		_, isChan := s.eng.chanGhostT[it.Name]
		if strings.HasPrefix(it.Name, "$spawns_") {
			isChan = true
		}
		if _, ok := s.eng.ghostDecls[it.Name]; !ok && !isChan {
			specFail("modifies %s: undeclared ghost variable", it.Name)
		}
		fi.ghost = it.Name
		return fi
	}
	switch it.Op {
	case "sel":
		// Type.field (whole heap) or expr.field
		if it.Args[0].Op == "ident" || (it.Args[0].Op == "sel" && it.Args[0].Args[0].Op == "ident") {
			var tt types.Type
			if it.Args[0].Op == "ident" {
				if _, isVar := env.vars[it.Args[0].Name]; !isVar && (env.fn == nil || s.eng.localByName(env.fn, it.Args[0].Name) == nil) {
					tt = env.lookupTypeName(it.Args[0].Name)
				}
			} else if p := s.eng.pkgByName(it.Args[0].Args[0].Name, env.pkg); p != nil {
				if _, isVar := env.vars[it.Args[0].Args[0].Name]; !isVar {
					if tn, ok := p.Scope().Lookup(it.Args[0].Name).(*types.TypeName); ok {
						tt = tn.Type()
					}
				}
			}
			if tt != nil {
				st, ok := tt.Underlying().(*types.Struct)
				if !ok {
					specFail("modifies %s: not a struct type", it)
				}
				idx, _ := findField(st, it.Name)
				if idx < 0 {
					specFail("modifies %s: no such field", it)
				}
				base := fieldHeapBase(tt, st, idx)
				fi.whole = true
				fi.bases = []heapBaseInfo{{base, heapLeaves(base, st.Field(idx).Type())}}
				return fi
			}
		}
		bv := env.eval(it.Args[0])
		pt := derefType(bv.T)
		if pt == nil {
			specFail("modifies %s: base is not a pointer", it)
		}
		st, ok := pt.Underlying().(*types.Struct)
		if !ok {
			specFail("modifies %s: base is not a struct pointer", it)
		}
		idx, _ := findField(st, it.Name)
		if idx < 0 {
			specFail("modifies %s: no such field", it)
		}
		base := fieldHeapBase(pt, st, idx)
		fi.ref = bv.Terms[0]
		fi.bases = []heapBaseInfo{{base, heapLeaves(base, st.Field(idx).Type())}}
		return fi
	case "un":
		if it.Name == "*" {
			bv := env.eval(it.Args[0])
			pt := derefType(bv.T)
			if pt == nil {
				specFail("modifies %s: not a pointer", it)
			}
			fi.ref = bv.Terms[0]
			if st, ok := pt.Underlying().(*types.Struct); ok {
				for i := 0; i < st.NumFields(); i++ {
					base := fieldHeapBase(pt, st, i)
					fi.bases = append(fi.bases, heapBaseInfo{base, heapLeaves(base, st.Field(i).Type())})
				}
				return fi
			}
			base := cellHeapBase(pt)
			fi.bases = []heapBaseInfo{{base, heapLeaves(base, pt)}}
			return fi
		}
	case "call":
		switch it.Name {
		case "cell":
			// cell(T): every cell of pointee type T
			t := env.resolveType(it.Args[0].Name)
			base := cellHeapBase(t)
			fi.whole = true
			fi.bases = []heapBaseInfo{{base, heapLeaves(base, t)}}
			return fi
		case "mapof":
			mv := env.eval(it.Args[0])
			mt, ok := mv.T.Underlying().(*types.Map)
			if !ok {
				specFail("modifies %s: not a map", it)
			}
			fi.ref = mv.Terms[0]
			fi.bases = mapHeapBases(mt)
			return fi
		case "allmaps":
			mt, ok := env.resolveType(it.Args[0].Name).Underlying().(*types.Map)
			if !ok {
				specFail("modifies %s: not a map type", it)
			}
			fi.whole = true
			fi.bases = mapHeapBases(mt)
			return fi
		case "global":
			fi.whole = true
			fi.bases = nil
			return fi
		}
	}
	specFail("unsupported modifies item %s", it)
	return fi
}

func (s *State) buildFrame(items []*SExpr, has bool, env *SpecEnv, desc string) *frameSpec {
	if !has {
		return &frameSpec{Unrestricted: true}
	}
	fr := &frameSpec{Whole: map[string]bool{}, Refs: map[string][]string{}, AllocPre: s.alloc, Desc: desc, Ghost: map[string]bool{}}
	var srcs []string
	for _, it := range s.evalFrameItems(items, env) {
		srcs = append(srcs, it.src)
		if it.ghost != "" {
			fr.Ghost[it.ghost] = true
			continue
		}
		for _, b := range it.bases {
			if it.whole {
				fr.Whole[b.base] = true
			} else {
				fr.Refs[b.base] = append(fr.Refs[b.base], it.ref)
			}
		}
	}
	fr.Desc = desc + ": " + strings.Join(srcs, ", ")
	return fr
}

// frameItemsStatic computes the heap bases named by a callee's modifies clause using dummy arguments (types only).
func (e *Engine) frameItemsStatic(s *State, spec *FuncSpec, callee *ssa.Function) []frameItem {
	t := s.fork()
	t.coll = &collector{}
	env := t.specEnv()
	env.vars = map[string]Val{}
	if callee != nil {
		env.fn = nil
		if callee.Pkg != nil {
			env.pkg = callee.Pkg.Pkg
		}
		for _, p := range callee.Params {
			env.vars[p.Name()] = t.freshVal("dummy", p.Type())
		}
	} else if spec.ftSig != nil {
		env.fn = nil
		if p := e.typesPkgs[spec.Pkg]; p != nil {
			env.pkg = p
		}
		for i := 0; i < spec.ftSig.Params().Len(); i++ {
			name := spec.ftSig.Params().At(i).Name()
			if i < len(spec.ftParams) {
				name = spec.ftParams[i]
			}
			env.vars[name] = t.freshVal("dummy", spec.ftSig.Params().At(i).Type())
		}
	}
	return t.evalFrameItems(spec.Modifies, env)
}

// ---- values -------------------------------------------------------------------

func (s *State) valueOf(v ssa.Value) Val {
	switch v := v.(type) {
	case *ssa.Const:
		return s.constOf(v)
	case *ssa.Global:
		return Val{T: v.Type(), Loc: &Loc{Global: v, RootT: derefType(v.Type())}, Terms: []string{"(- 1)"}}
	case *ssa.Function:
		fv := Val{T: v.Type(), Fn: v, Terms: []string{s.fnRef(v)}}
		if v.Parent() != nil && len(v.FreeVars) == 0 {
			key := "fndef:" + s.eng.fnKey(v)
			if _, done := s.ghost[key]; !done {
				s.ghost[key] = mkBool("true")
				s.closureDefinition(nil, v, fv)
			}
		}
		return fv
	case *ssa.Builtin:
		return Val{T: v.Type(), Terms: []string{"0"}}
	}
	r, ok := s.regs[v]
	if !ok {
		s.unsupported("use of undefined SSA value %s (%T) in %s", v.Name(), v, s.eng.fnKey(s.fn))
	}
	return r
}

func (s *State) fnRef(f *ssa.Function) string {
	name := sym("fn:" + s.eng.fnKey(f))
	decl := fmt.Sprintf("(declare-const %s Int)", name)
	for _, c := range s.cmds {
		if c == decl {
			return name
		}
	}
	s.cmds = append(s.cmds, decl)
	s.assume(app("<", "0", name))
	s.assume(app("<", name, s.entryAlloc()))
	return name
}

func (s *State) constOf(c *ssa.Const) Val {
	t := c.Type()
	if c.Value == nil {
		// nil or zero value
		z := zeroVal(t)
		return z
	}
	switch c.Value.Kind() {
	case constant.Float:
		f, _ := constant.Float64Val(c.Value)
		if f == 0 {
			return Val{T: t, Terms: []string{"f64zero"}}
		}
		name := sym(fmt.Sprintf("f64:%v", f))
		decl := fmt.Sprintf("(declare-const %s F64)", name)
		found := false
		for _, cm := range s.cmds {
			if cm == decl {
				found = true
			}
		}
		if !found {
			s.cmds = append(s.cmds, decl)
		}
		return Val{T: t, Terms: []string{name}}
	}
	if isIntT(t) && c.Value.Kind() == constant.Float {
		s.unsupported("float constant as int")
	}
	if b, ok := t.Underlying().(*types.Basic); ok && b.Info()&types.IsFloat != 0 {
		// integer constant used as float
		f, _ := constant.Float64Val(c.Value)
		if f == 0 {
			return Val{T: t, Terms: []string{"f64zero"}}
		}
		name := sym(fmt.Sprintf("f64:%v", f))
		decl := fmt.Sprintf("(declare-const %s F64)", name)
		found := false
		for _, cm := range s.cmds {
			if cm == decl {
				found = true
			}
		}
		if !found {
			s.cmds = append(s.cmds, decl)
		}
		return Val{T: t, Terms: []string{name}}
	}
	return constVal(t, c.Value)
}

// globalVal returns the value of a package-level variable.
func (s *State) globalVal(o *types.Var) Val {
	key := "global:" + o.Pkg().Path() + "." + o.Name()
	if v, ok := s.ghost[key]; ok {
		return v
	}
	if c, ok := s.eng.strConsts[o.Pkg().Path()+"."+o.Name()]; ok && isString(o.Type()) {
		s.eng.assumptionsUsed["package-level string variable "+o.Pkg().Name()+"."+o.Name()+" keeps its initial value"] = true
		cc := c
		v := Val{T: o.Type(), Terms: []string{strLit(c)}, Const: &cc}
		return v
	}
	if c, ok := s.eng.intConsts[o.Pkg().Path()+"."+o.Name()]; ok && isIntT(o.Type()) {
		s.eng.assumptionsUsed["package-level int variable "+o.Pkg().Name()+"."+o.Name()+" keeps its initial value (no function of the repository assigns it; a user of an exported variable could)"] = true
		return Val{T: o.Type(), Terms: []string{intLit(c)}}
	}
	// sentinel errors and other globals: a fixed, allocated value
	name := sym("g:" + o.Pkg().Name() + "." + o.Name())
	sh := shapeOf(o.Type())
	if len(sh) == 1 && sh[0].Ref {
		decl := fmt.Sprintf("(declare-const %s Int)", name)
		found := false
		for _, cm := range s.cmds {
			if cm == decl {
				found = true
			}
		}
		if !found {
			s.cmds = append(s.cmds, decl)
			s.assume(and(app("<", "0", name), app("<", name, s.entryAlloc())))
			if types.Identical(o.Type(), types.Universe.Lookup("error").Type()) {
				// distinct sentinel errors are distinct values
				for _, other := range s.sentinels {
					s.assume(not(eq(name, other)))
				}
				s.sentinels = append(s.sentinels, name)
				s.eng.assumptionsUsed["package-level error variables are distinct non-nil values and are never reassigned"] = true
			}
		}
		v := Val{T: o.Type(), Terms: []string{name}}
		return v
	}
	v := s.freshVal("g:"+o.Name(), o.Type())
	s.ghost[key] = v
	return v
}

// ---- instruction semantics --------------------------------------------------------

func (s *State) exec(in ssa.Instruction) {
	where := s.eng.pos(in.Pos())
	switch in := in.(type) {
	case *ssa.DebugRef:
	case *ssa.Alloc:
		s.execAlloc(in)
	case *ssa.Store:
		av := s.valueOf(in.Addr)
		v := s.valueOf(in.Val)
		if av.Loc != nil && av.Loc.Global != nil {
			o := av.Loc.Global.Object().(*types.Var)
			s.ghost["global:"+o.Pkg().Path()+"."+o.Name()] = v
			return
		}
		loc := s.locOf(av)
		if loc.Cell == nil && v.Loc != nil {
			s.unsupported("storing an interior pointer into the heap at %s", where)
		}
		s.storeTo(loc, v, where)
	case *ssa.UnOp:
		s.regs[in] = s.shorten(s.execUnOp(in, where))
	case *ssa.BinOp:
		s.regs[in] = s.shorten(s.execBinOp(in, where))
	case *ssa.FieldAddr:
		base := s.valueOf(in.X)
		loc := *s.locOf(base)
		loc.Path = append(append([]Sel(nil), loc.Path...), Sel{Field: in.Field, ConstIx: -1})
		s.regs[in] = Val{T: in.Type(), Loc: &loc, Terms: []string{"(- 1)"}}
	case *ssa.Field:
		base := s.valueOf(in.X)
		s.regs[in] = s.project(base, []Sel{{Field: in.Field, ConstIx: -1}})
	case *ssa.IndexAddr:
		s.regs[in] = s.execIndexAddr(in, where)
	case *ssa.Index:
		base := s.valueOf(in.X)
		idx := s.valueOf(in.Index)
		if isString(base.T) {
			s.oblige("safety", "index", []string{"C19"}, and(app("<=", "0", idx.Terms[0]), app("<", idx.Terms[0], app("str.len", base.Terms[0]))), where, "")
			s.regs[in] = Val{T: in.Type(), Terms: []string{app("str.to_code", app("str.at", base.Terms[0], idx.Terms[0]))}}
			return
		}
		s.regs[in] = s.project(base, []Sel{{Field: -1, Index: idx.Terms[0], ConstIx: constIndex(in.Index)}})
	case *ssa.Extract:
		tv := s.valueOf(in.Tuple)
		tp := in.Tuple.Type().(*types.Tuple)
		if len(tv.Elems) == tp.Len() && tv.Elems[in.Index].T != nil {
			s.regs[in] = tv.Elems[in.Index]
			return
		}
		lo, hi := tupleRange(tp, in.Index)
		s.regs[in] = Val{T: in.Type(), Terms: tv.Terms[lo:hi]}
	case *ssa.Phi:
		for i, p := range in.Block().Preds {
			if p == s.prev {
				s.regs[in] = s.valueOf(in.Edges[i])
				return
			}
		}
		s.unsupported("phi without matching predecessor")
	case *ssa.ChangeType:
		v := s.valueOf(in.X)
		v.T = in.Type()
		s.regs[in] = v
	case *ssa.ChangeInterface:
		v := s.valueOf(in.X)
		v.T = in.Type()
		s.regs[in] = v
	case *ssa.Convert:
		s.regs[in] = s.execConvert(in, where)
	case *ssa.MakeInterface:
		s.regs[in] = s.execMakeInterface(in)
	case *ssa.TypeAssert:
		s.regs[in] = s.execTypeAssert(in, where)
	case *ssa.MakeClosure:
		f := in.Fn.(*ssa.Function)
		v := Val{T: in.Type(), Fn: f}
		for _, b := range in.Bindings {
			v.Binds = append(v.Binds, s.valueOf(b))
		}
		v.Terms = []string{s.allocRef("closure", "$closure")}
		s.regs[in] = v
		s.closureDefinition(in, f, v)
	case *ssa.MakeMap:
		mt := in.Type().Underlying().(*types.Map)
		r := s.allocRef("map", typeKey(in.Type()))
		s.mapInit(mt, r)
		s.regs[in] = Val{T: in.Type(), Terms: []string{r}}
	case *ssa.MakeSlice:
		n := s.valueOf(in.Len).Terms[0]
		s.oblige("safety", "makeslice-len", []string{"C19"}, app("<=", "0", n), where, "")
		// runtime.makeslice panics when len > cap or cap*elemsize exceeds the allocation limit
		cp := s.valueOf(in.Cap).Terms[0]
		esz := sizeofType(in.Type().Underlying().(*types.Slice).Elem())
		s.oblige("safety", "makeslice-cap", []string{"C19"}, and(app("<=", n, cp), app("<=", cp, fmt.Sprint(281474976710656/esz))), where, "make: cap out of range or smaller than len")
		z := zeroVal(in.Type())
		z.Terms[0] = n
		z.Terms[1] = "false"
		s.regs[in] = z
	case *ssa.MakeChan:
		r := s.allocRef("chan", typeKey(in.Type()))
		s.regs[in] = Val{T: in.Type(), Terms: []string{r}}
		s.ghost["chancap:"+in.Name()] = s.valueOf(in.Size)
		s.assume(eq(app("chan_cap", r), s.valueOf(in.Size).Terms[0]))
	case *ssa.Slice:
		s.regs[in] = s.execSlice(in, where)
	case *ssa.Lookup:
		s.regs[in] = s.execLookup(in, where)
	case *ssa.MapUpdate:
		m := s.valueOf(in.Map)
		mt := in.Map.Type().Underlying().(*types.Map)
		s.oblige("safety", "nil-map-write", []string{"C19"}, not(eq(m.Terms[0], "0")), where, "")
		s.mapStore(mt, m.Terms[0], s.valueOf(in.Key).Terms[0], s.valueOf(in.Value), where)
	case *ssa.Range:
		xv := s.valueOf(in.X)
		mt, ok := in.X.Type().Underlying().(*types.Map)
		if !ok {
			s.unsupported("range over %s", in.X.Type())
		}
		ks := shapeOf(mt.Key())[0].Sort
		s.iters[in] = iterState{MapRef: xv.Terms[0], MapT: mt, Seen: zeroOfSort(arrSort(ks, sBool)), Count: "0"}
		s.regs[in] = Val{T: in.Type(), Terms: []string{"0"}}
	case *ssa.Next:
		s.regs[in] = s.execNext(in)
	case ssa.CallInstruction:
		switch ci := in.(type) {
		case *ssa.Call:
			s.regs[ci] = s.execCall(ci.Common(), ci, where)
		case *ssa.Defer:
			s.defers = append(s.defers, deferred{call: ci.Common(), instr: ci})
			// evaluate arguments now
			for _, a := range ci.Common().Args {
				s.valueOf(a)
			}
			s.deferArgs = append(s.deferArgs, s.evalArgs(ci.Common()))
		case *ssa.Go:
			s.execGo(ci, where)
		}
	case *ssa.RunDefers:
		for i := len(s.defers) - 1; i >= 0; i-- {
			d := s.defers[i]
			s.execCallWithArgs(d.call, nil, s.deferArgs[i], s.eng.pos(d.instr.Pos()))
		}
		s.defers = nil
		s.deferArgs = nil
	case *ssa.Send:
		s.execSend(in, where)
	case *ssa.Select:
		s.regs[in] = s.execSelect(in, where)
	default:
		s.unsupported("instruction %T (%s) at %s", in, in, where)
	}
}

// shorten names long leaf terms so that later uses stay small.
func (s *State) shorten(v Val) Val {
	if v.Loc != nil || v.Const != nil {
		return v
	}
	sh := shapeOf(v.T)
	if len(sh) != len(v.Terms) {
		return v
	}
	var nt []string
	changed := false
	for i, t := range v.Terms {
		if len(t) > 60 {
			t = s.define("v", sh[i].Sort, t)
			changed = true
		}
		nt = append(nt, t)
	}
	if changed {
		v.Terms = nt
	}
	return v
}

func constIndex(v ssa.Value) int {
	if c, ok := v.(*ssa.Const); ok && c.Value != nil {
		if n, ok := constant.Int64Val(c.Value); ok && n >= 0 && n < 1<<20 {
			return int(n)
		}
	}
	return -1
}

func (s *State) execAlloc(a *ssa.Alloc) {
	t := derefType(a.Type())
	if a.Comment == "defer$stack" {
		s.cells[a] = zeroVal(t)
		s.regs[a] = Val{T: a.Type(), Loc: &Loc{Cell: a, RootT: t}, Terms: []string{"(- 1)"}}
		return
	}
	if s.eng.isLocalCell(a) {
		z := zeroVal(t)
		if at, ok := t.Underlying().(*types.Array); ok && at.Len() <= 64 {
			z.Elems = make([]Val, at.Len())
			for i := range z.Elems {
				z.Elems[i] = zeroVal(at.Elem())
			}
		}
		s.cells[a] = z
		s.regs[a] = Val{T: a.Type(), Loc: &Loc{Cell: a, RootT: t}, Terms: []string{"(- 1)"}}
		return
	}
	r := s.allocRef("new:"+a.Comment, typeKey(t))
	z := zeroVal(t)
	if st, ok := t.Underlying().(*types.Struct); ok {
		for i := 0; i < st.NumFields(); i++ {
			lo, hi := fieldRange(st, i)
			s.storeHeap(fieldHeapBase(t, st, i), st.Field(i).Type(), r, Val{T: st.Field(i).Type(), Terms: z.Terms[lo:hi]})
		}
	} else {
		s.storeHeap(cellHeapBase(t), t, r, z)
	}
	s.regs[a] = Val{T: a.Type(), Terms: []string{r}}
}

func (s *State) execUnOp(in *ssa.UnOp, where string) Val {
	x := s.valueOf(in.X)
	switch in.Op {
	case token.MUL:
		if x.Loc != nil && x.Loc.Global != nil {
			return s.globalVal(x.Loc.Global.Object().(*types.Var))
		}
		loc := s.locOf(x)
		v := s.load(loc, where)
		v.T = in.Type()
		if isSlice(v.T) && v.Origin == nil {
			v.Origin = loc
		}
		// values read from memory are well-typed (ints in range, lengths non-negative, references allocated)
		hasIndex := false
		for _, sl := range loc.Path {
			if sl.Field < 0 {
				hasIndex = true
			}
		}
		if v.Loc == nil && (loc.Cell == nil || hasIndex) {
			s.typeFacts(v.T, v.Terms, s.alloc)
		}
		return v
	case token.NOT:
		return Val{T: in.Type(), Terms: []string{not(x.Terms[0])}}
	case token.SUB:
		if isIntT(in.Type()) {
			// -MinInt wraps to MinInt
			return Val{T: in.Type(), Terms: []string{ite(eq(x.Terms[0], minInt), minInt, app("-", x.Terms[0]))}}
		}
		return s.freshVal("neg", in.Type())
	case token.ARROW:
		return s.execRecv(in, x, where)
	}
	return s.freshVal("unop", in.Type())
}

func (s *State) execBinOp(in *ssa.BinOp, where string) Val {
	x := s.valueOf(in.X)
	y := s.valueOf(in.Y)
	t := in.X.Type()
	res := in.Type()
	a, b := x.Terms[0], y.Terms[0]
	switch in.Op {
	case token.EQL, token.NEQ:
		var r string
		switch {
		case isSlice(t) || isSlice(in.Y.Type()):
			if isSlice(t) {
				r = x.Terms[1]
			} else {
				r = y.Terms[1]
			}
		default:
			if len(x.Terms) != len(y.Terms) {
				s.unsupported("comparison of %s and %s", t, in.Y.Type())
			}
			var cs []string
			for i := range x.Terms {
				cs = append(cs, eq(x.Terms[i], y.Terms[i]))
			}
			r = and(cs...)
		}
		if in.Op == token.NEQ {
			r = not(r)
		}
		return Val{T: res, Terms: []string{r}}
	}
	if isString(t) {
		switch in.Op {
		case token.ADD:
			v := Val{T: res, Terms: []string{app("str.++", a, b)}}
			if x.Const != nil && y.Const != nil {
				c := *x.Const + *y.Const
				v.Const = &c
				v.Terms[0] = strLit(c)
			}
			return v
		case token.LSS:
			return Val{T: res, Terms: []string{app("str.<", a, b)}}
		case token.LEQ:
			return Val{T: res, Terms: []string{app("str.<=", a, b)}}
		case token.GTR:
			return Val{T: res, Terms: []string{app("str.<", b, a)}}
		case token.GEQ:
			return Val{T: res, Terms: []string{app("str.<=", b, a)}}
		}
	}
	if isIntT(t) {
		bt := t.Underlying().(*types.Basic)
		lo, hi := intRange(bt)
		rng := func(e string) string { return and(app("<=", lo, e), app("<=", e, hi)) }
		switch in.Op {
		case token.ADD, token.SUB, token.MUL:
			op := map[token.Token]string{token.ADD: "+", token.SUB: "-", token.MUL: "*"}[in.Op]
			e := app(op, a, b)
			if bt.Info()&types.IsUnsigned != 0 || lo == "" {
				return s.freshVal("uarith", res)
			}
			// exact Go semantics: two's-complement wrap-around when the mathematical result leaves the type's range
			if bt.Kind() != types.Int && bt.Kind() != types.Int64 {
				return s.freshVal("narrowarith", res)
			}
			if u, ok := in.X.(*ssa.UnOp); ok && u.Op == token.MUL {
				if al, ok := u.X.(*ssa.Alloc); ok && al.Comment == "rangeindex" {
					// hidden range index: bounded by the slice length (auto invariant), cannot wrap
					return Val{T: res, Terms: []string{e}}
				}
			}
			ec := s.define("ar", sInt, e)
			// try to establish cheaply that the operation cannot wrap; then the plain mathematical term is exact
			if s.proveQuick(rng(ec)) {
				s.assume(rng(ec))
				return Val{T: res, Terms: []string{ec}}
			}
			wrapped := app("-", app("mod", app("+", ec, "9223372036854775808"), "18446744073709551616"), "9223372036854775808")
			return Val{T: res, Terms: []string{s.define("arw", sInt, ite(rng(ec), ec, wrapped))}}
		case token.QUO, token.REM:
			s.oblige("safety", "div-by-zero", []string{"C19"}, not(eq(b, "0")), where, "")
			q := ite(app(">=", a, "0"), app("div", a, b), app("-", app("div", app("-", a), b)))
			if in.Op == token.QUO {
				return Val{T: res, Terms: []string{q}}
			}
			return Val{T: res, Terms: []string{app("-", a, app("*", b, q))}}
		case token.LSS:
			return Val{T: res, Terms: []string{app("<", a, b)}}
		case token.LEQ:
			return Val{T: res, Terms: []string{app("<=", a, b)}}
		case token.GTR:
			return Val{T: res, Terms: []string{app(">", a, b)}}
		case token.GEQ:
			return Val{T: res, Terms: []string{app(">=", a, b)}}
		}
		return s.freshVal("bitop", res)
	}
	if isBoolT(t) {
		switch in.Op {
		case token.AND, token.LAND:
			return Val{T: res, Terms: []string{and(a, b)}}
		case token.OR, token.LOR:
			return Val{T: res, Terms: []string{or(a, b)}}
		}
	}
	// floats and everything else: opaque
	if isBoolT(res) {
		s.eng.counter++
		return Val{T: res, Terms: []string{s.fresh("cmp", sBool)}}
	}
	return s.freshVal("binop", res)
}

func (s *State) execIndexAddr(in *ssa.IndexAddr, where string) Val {
	x := s.valueOf(in.X)
	idx := s.valueOf(in.Index).Terms[0]
	ci := constIndex(in.Index)
	if _, isPtr := in.X.Type().Underlying().(*types.Pointer); isPtr {
		// pointer to array
		loc := *s.locOf(x)
		at := derefType(in.X.Type()).Underlying().(*types.Array)
		s.oblige("safety", "index", []string{"C19"}, and(app("<=", "0", idx), app("<", idx, fmt.Sprint(at.Len()))), where, "")
		loc.Path = append(append([]Sel(nil), loc.Path...), Sel{Field: -1, Index: idx, ConstIx: ci})
		return Val{T: in.Type(), Loc: &loc, Terms: []string{"(- 1)"}}
	}
	// slice value
	s.oblige("safety", "index", []string{"C19"}, and(app("<=", "0", idx), app("<", idx, x.Terms[0])), where, "")
	if x.Origin != nil {
		loc := *x.Origin
		loc.Path = append(append([]Sel(nil), loc.Path...), Sel{Field: -1, Index: idx, ConstIx: ci})
		loc.Det = &x
		return Val{T: in.Type(), Loc: &loc, Terms: []string{"(- 1)"}}
	}
	xx := x
	return Val{T: in.Type(), Loc: &Loc{Det: &xx, Path: []Sel{{Field: -1, Index: idx, ConstIx: ci}}}, Terms: []string{"(- 1)"}}
}

func (s *State) execSlice(in *ssa.Slice, where string) Val {
	x := s.valueOf(in.X)
	var lo, hi string
	if in.Low != nil {
		lo = s.valueOf(in.Low).Terms[0]
	}
	if in.High != nil {
		hi = s.valueOf(in.High).Terms[0]
	}
	if _, isPtr := in.X.Type().Underlying().(*types.Pointer); isPtr {
		// slicing an array through its address (slice literals, varargs)
		av := s.load(s.locOf(x), where)
		at := derefType(in.X.Type()).Underlying().(*types.Array)
		n := int(at.Len())
		if (lo != "" && lo != "0") || (hi != "" && (constIndexStr(hi) < 0 || constIndexStr(hi) > n)) {
			s.unsupported("partial slice of array at %s", where)
		}
		if hi != "" {
			n = constIndexStr(hi)
		}
		v := Val{T: in.Type(), Terms: []string{fmt.Sprint(n), "false"}}
		if n < len(av.Elems) {
			av.Elems = av.Elems[:n]
		}
		for i, t := range av.Terms {
			v.Terms = append(v.Terms, s.define("lit", shapeOf(in.Type())[2+i].Sort, t))
		}
		v.Elems = av.Elems
		return v
	}
	if isString(in.X.Type()) {
		l := "0"
		if lo != "" {
			l = lo
		}
		h := app("str.len", x.Terms[0])
		if hi != "" {
			h = hi
		}
		s.oblige("safety", "slice-bounds", []string{"C19"}, and(app("<=", "0", l), app("<=", l, h), app("<=", h, app("str.len", x.Terms[0]))), where, "")
		return Val{T: in.Type(), Terms: []string{app("str.substr", x.Terms[0], l, app("-", h, l))}}
	}
	// slice of slice
	l := "0"
	if lo != "" {
		l = lo
	}
	h := x.Terms[0]
	if hi != "" {
		h = hi
	}
	// capacity is not modelled: require high <= len (stricter than Go, which allows up to cap)
	s.oblige("safety", "slice-bounds", []string{"C19"}, and(app("<=", "0", l), app("<=", l, h), app("<=", h, x.Terms[0])), where, "")
	v := Val{T: in.Type(), Terms: []string{app("-", h, l), and(x.Terms[1], eq(h, l))}}
	if isSlice(x.T) {
		v.Terms[1] = x.Terms[1]
		v.Shared = true
	}
	shp := shapeOf(in.Type())
	for i, t := range x.Terms[2:] {
		if l == "0" {
			v.Terms = append(v.Terms, t)
		} else {
			_, es := splitArraySort(shp[2+i].Sort)
			fn := s.eng.shiftFn(es)
			v.Terms = append(v.Terms, app(fn, t, l))
		}
	}
	if l == "0" && len(x.Elems) > 0 {
		if n := constIndexStr(h); n >= 0 && n <= len(x.Elems) {
			v.Elems = x.Elems[:n]
		}
	}
	return v
}

func constIndexStr(t string) int {
	n := 0
	if t == "" {
		return -1
	}
	for i := 0; i < len(t); i++ {
		if t[i] < '0' || t[i] > '9' {
			return -1
		}
		n = n*10 + int(t[i]-'0')
		if n > 1<<20 {
			return -1
		}
	}
	return n
}

func (s *State) execConvert(in *ssa.Convert, where string) Val {
	x := s.valueOf(in.X)
	from, to := in.X.Type(), in.Type()
	switch {
	case isString(from) && isString(to):
		x.T = to
		return x
	case isIntT(from) && isIntT(to):
		bt := to.Underlying().(*types.Basic)
		lo, hi := intRange(bt)
		fb := from.Underlying().(*types.Basic)
		flo, fhi := intRange(fb)
		if lo == flo && hi == fhi || (fb.Kind() == types.Int && bt.Kind() == types.Int64) || (fb.Kind() == types.Int64 && bt.Kind() == types.Int) {
			return Val{T: to, Terms: x.Terms}
		}
		// widening is exact; narrowing is opaque within range
		v := s.freshVal("conv", to)
		s.assume(implies(and(app("<=", lo, x.Terms[0]), app("<=", x.Terms[0], hi)), eq(v.Terms[0], x.Terms[0])))
		return v
	case isString(from) && isSlice(to):
		// []rune(s) / []byte(s): opaque, with length facts
		et := to.Underlying().(*types.Slice).Elem().Underlying().(*types.Basic)
		v := Val{T: to}
		if et.Kind() == types.Int32 {
			v.Terms = []string{app("rune_count", x.Terms[0]), "false", app("runes_of", x.Terms[0])}
			s.eng.assumptionsUsed["[]rune(s) / string(runes): opaque; rune_count(s) in [0,len(s)], >0 iff s != \"\"; string([]rune(s)[0]) ++ string([]rune(s)[1:]) == s only for valid UTF-8 (not assumed)"] = true
		} else {
			v.Terms = []string{app("str.len", x.Terms[0]), "false", app("bytes_of", x.Terms[0])}
		}
		return v
	case isSlice(from) && isString(to):
		et := from.Underlying().(*types.Slice).Elem().Underlying().(*types.Basic)
		if et.Kind() == types.Int32 {
			return Val{T: to, Terms: []string{app("str_of_runes", x.Terms[2], x.Terms[0])}}
		}
		return Val{T: to, Terms: []string{app("str_of_bytes", x.Terms[2], x.Terms[0])}}
	case isIntT(from) && isString(to):
		return Val{T: to, Terms: []string{app("str_of_rune", x.Terms[0])}}
	}
	return s.freshVal("conv", to)
}

func (s *State) execMakeInterface(in *ssa.MakeInterface) Val {
	x := s.valueOf(in.X)
	xt := in.X.Type()
	tag := strLit(typeKey(xt))
	sh := shapeOf(xt)
	// interface values wrapping an error-implementing pointer keep identity through iface_ptr
	i := s.fresh("iface", sInt)
	s.assume(app("<", "0", i))
	s.assume(eq(app("iface_tag", i), tag))
	if len(sh) == 1 && sh[0].Sort == sInt {
		s.assume(eq(app("iface_int", i), x.Terms[0]))
	}
	if len(sh) == 1 && sh[0].Sort == sString {
		s.assume(eq(app("iface_str", i), x.Terms[0]))
	}
	// allocated "now"
	s.assume(app("<", i, s.alloc))
	bx := x
	return Val{T: in.Type(), Terms: []string{i}, Box: &bx}
}

func (s *State) execTypeAssert(in *ssa.TypeAssert, where string) Val {
	x := s.valueOf(in.X)
	at := in.AssertedType
	if _, isIface := at.Underlying().(*types.Interface); isIface {
		if in.CommaOk {
			ok := s.fresh("ok", sBool)
			return Val{T: in.Type(), Terms: []string{x.Terms[0], ok}}
		}
		s.unsupported("interface-to-interface assertion without comma-ok at %s", where)
	}
	tag := strLit(typeKey(at))
	okT := and(not(eq(x.Terms[0], "0")), eq(app("iface_tag", x.Terms[0]), tag))
	var res Val
	if x.Box != nil && types.Identical(x.Box.T, at) {
		res = *x.Box
		okT = "true"
	} else {
		sh := shapeOf(at)
		res = Val{T: at}
		switch {
		case len(sh) == 1 && sh[0].Sort == sInt:
			res.Terms = []string{app("iface_int", x.Terms[0])}
			if sh[0].Ref {
				s.assume(implies(okT, and(app("<=", "0", res.Terms[0]), app("<", res.Terms[0], s.alloc))))
			}
		case len(sh) == 1 && sh[0].Sort == sString:
			res.Terms = []string{app("iface_str", x.Terms[0])}
		default:
			res = s.freshVal("assert", at)
		}
	}
	if in.CommaOk {
		okc := s.define("ok", sBool, okT)
		out := Val{T: in.Type()}
		z := zeroVal(at)
		for i := range res.Terms {
			out.Terms = append(out.Terms, ite(okc, res.Terms[i], z.Terms[i]))
		}
		out.Terms = append(out.Terms, okc)
		return out
	}
	s.oblige("safety", "type-assert", []string{"C19"}, okT, where, "")
	return res
}

func (s *State) execLookup(in *ssa.Lookup, where string) Val {
	x := s.valueOf(in.X)
	k := s.valueOf(in.Index)
	if isString(in.X.Type()) {
		s.oblige("safety", "index", []string{"C19"}, and(app("<=", "0", k.Terms[0]), app("<", k.Terms[0], app("str.len", x.Terms[0]))), where, "")
		return Val{T: in.Type(), Terms: []string{app("str.to_code", app("str.at", x.Terms[0], k.Terms[0]))}}
	}
	mt := in.X.Type().Underlying().(*types.Map)
	dom := s.mapDomIn(nil, mt, x.Terms[0])
	has := and(not(eq(x.Terms[0], "0")), sel(dom, k.Terms[0]))
	has = s.define("has", sBool, has)
	val := s.mapValIn(nil, mt, x.Terms[0], k.Terms[0])
	z := zeroVal(mt.Elem())
	out := Val{T: in.Type()}
	for i := range val.Terms {
		out.Terms = append(out.Terms, ite(has, val.Terms[i], z.Terms[i]))
	}
	sh := shapeOf(mt.Elem())
	if len(sh) == 1 && sh[0].Ref {
		s.assume(and(app("<=", "0", out.Terms[0]), app("<", out.Terms[0], s.alloc)))
	}
	if in.CommaOk {
		out.Terms = append(out.Terms, has)
	}
	return out
}

func (s *State) execNext(in *ssa.Next) Val {
	r, ok := in.Iter.(*ssa.Range)
	if !ok || in.IsString {
		s.unsupported("next over string")
	}
	it := s.iters[r]
	mt := it.MapT
	ks := shapeOf(mt.Key())[0].Sort
	dom := s.mapDomIn(nil, mt, it.MapRef)
	okc := s.fresh("next_ok", sBool)
	k := s.fresh("next_k", ks)
	// ok  ==> k in dom, k not yet seen ;  !ok ==> every key of dom was seen
	s.assume(implies(okc, and(sel(dom, k), not(sel(it.Seen, k)))))
	s.eng.counter++
	q := sym(fmt.Sprintf("q?%d", s.eng.counter))
	s.assume(implies(not(okc), fmt.Sprintf("(forall ((%s %s)) (=> (select %s %s) (select %s %s)))", q, ks, dom, q, it.Seen, q)))
	// a nil map has no keys
	s.assume(implies(eq(it.MapRef, "0"), not(okc)))
	seen2 := s.fresh("seen", arrSort(ks, sBool))
	s.assume(eq(seen2, ite(okc, store(it.Seen, k, "true"), it.Seen)))
	it.Seen = seen2
	// every key is visited exactly once: when the iteration ends the number of visited keys is the size of the map
	s.assume(implies(not(okc), eq(it.Count, ite(eq(it.MapRef, "0"), "0", s.mapCardIn(nil, mt, it.MapRef)))))
	// a key not yet visited exists only while fewer keys than the map holds were visited
	s.assume(implies(okc, app("<", it.Count, s.mapCardIn(nil, mt, it.MapRef))))
	cnt := s.fresh("count", sInt)
	s.assume(eq(cnt, ite(okc, app("+", it.Count, "1"), it.Count)))
	it.Count = cnt
	s.iters[r] = it
	val := s.mapValIn(nil, mt, it.MapRef, k)
	sh := shapeOf(mt.Elem())
	if len(sh) == 1 && sh[0].Ref {
		s.assume(implies(okc, and(app("<=", "0", val.Terms[0]), app("<", val.Terms[0], s.alloc))))
	}
	out := Val{T: in.Type(), Terms: []string{okc, k}}
	out.Terms = append(out.Terms, val.Terms...)
	return out
}

// ---- maps -----------------------------------------------------------------------

func (s *State) mapHeaps(mt *types.Map) (dom heapLeaf, card heapLeaf, val []heapLeaf) {
	hb := mapHeapBases(mt)
	return hb[0].leaves[0], hb[1].leaves[0], hb[2].leaves
}

func (s *State) mapDomIn(sn *Snapshot, mt *types.Map, ref string) string {
	d, _, _ := s.mapHeaps(mt)
	return sel(s.heapIn(sn, d), ref)
}

func (s *State) mapCardIn(sn *Snapshot, mt *types.Map, ref string) string {
	_, c, _ := s.mapHeaps(mt)
	return sel(s.heapIn(sn, c), ref)
}

func (s *State) mapValIn(sn *Snapshot, mt *types.Map, ref, key string) Val {
	_, _, vs := s.mapHeaps(mt)
	v := Val{T: mt.Elem()}
	for _, hl := range vs {
		v.Terms = append(v.Terms, sel(sel(s.heapIn(sn, hl), ref), key))
	}
	return v
}

func (s *State) mapInit(mt *types.Map, r string) {
	d, c, vs := s.mapHeaps(mt)
	s.heapSet(d, store(s.heapGet(d), r, zeroOfSort(d.Elem)))
	s.heapSet(c, store(s.heapGet(c), r, "0"))
	for _, hl := range vs {
		s.heapSet(hl, store(s.heapGet(hl), r, zeroOfSort(hl.Elem)))
	}
}

func (s *State) mapStore(mt *types.Map, ref, key string, v Val, where string) {
	d, c, vs := s.mapHeaps(mt)
	hb := mapHeapBases(mt)
	for _, b := range hb {
		s.checkFrameWrite(b.base, ref, where)
	}
	dh := s.heapGet(d)
	had := sel(sel(dh, ref), key)
	ch := s.heapGet(c)
	s.heapSet(c, store(ch, ref, ite(had, sel(ch, ref), app("+", sel(ch, ref), "1"))))
	s.heapSet(d, store(dh, ref, store(sel(dh, ref), key, "true")))
	for i, hl := range vs {
		h := s.heapGet(hl)
		s.heapSet(hl, store(h, ref, store(sel(h, ref), key, v.Terms[i])))
	}
}

// evalSteps checks the two-state per-iteration clauses of a loop at the end of an iteration
// (back edge: exit=false; the path leaves the loop by break/return: exit=true).
func (s *State) evalSteps(lf *loopFrame, exit bool, results map[string]Val) {
	l := lf.L
	if l.Spec == nil || len(l.Spec.Steps) == 0 {
		return
	}
	where := s.eng.pos(l.MinPos)
	entered := !(exit && results == nil && s.prev == l.Header)
	if !entered && (l.RangeIdx != nil || l.MapRange != nil) {
		// a range loop left from its header: no element was visited in this "iteration"
		return
	}
	env := s.specEnv()
	env.iter = lf.Head
	env.pre = lf.Pre
	env.lp = l
	captured := env.vars // variables captured by a closure stay reachable through their address
	env.vars = map[string]Val{"$exit": mkBool(fmt.Sprint(exit)), "$returned": mkBool(fmt.Sprint(results != nil)), "$entered": mkBool(fmt.Sprint(entered))}
	for k, v := range captured {
		if strings.HasPrefix(k, "&") {
			env.vars[k] = v
		}
	}
	if results == nil {
		// not returning: result names are bound to zero values (clauses guard them with $returned)
		sig := s.fn.Signature
		for i := 0; i < sig.Results().Len(); i++ {
			z := zeroVal(sig.Results().At(i).Type())
			env.vars[fmt.Sprintf("result%d", i)] = z
			if sig.Results().Len() == 1 {
				env.vars["result"] = z
			}
		}
	}
	for k, v := range results {
		env.vars[k] = v
	}
	for _, c := range l.Spec.Steps {
		c := c
		err := safeSpec(func() {
			g := env.evalBool(c.Expr)
			if os.Getenv("GOVC_DEBUG_STEP") != "" && strings.Contains(c.Name, os.Getenv("GOVC_DEBUG_STEP")) {
				fmt.Fprintf(os.Stderr, "STEP %s exit=%v returned=%v path=%s goal=%s\n", c.Name, exit, results != nil, strings.Join(s.trace, ">"), truncate(g, 300))
			}
			s.oblige("step", l.Name+"/"+c.Name, c.Props, g, where, c.Src)
		})
		if err != nil {
			s.coll.specErr(s.eng, s.fn, c, err)
		}
	}
}

// doPanic: an explicit panic is reachable only in entry states allowed by the contract's maypanic clauses.
func (s *State) doPanic(where string) {
	goal := "false"
	if s.spec != nil && len(s.spec.MayPanic) > 0 {
		env := s.specEnv().at(s.entry)
		env.vars = s.entryVars
		env.fn = nil
		var alts []string
		for _, c := range s.spec.MayPanic {
			c := c
			if err := safeSpec(func() { alts = append(alts, env.evalBool(c.Expr)) }); err != nil {
				s.coll.specErr(s.eng, s.fn, c, err)
			}
		}
		goal = or(alts...)
	}
	s.oblige("safety", "panic", append([]string{"C19"}, s.defaultProps()...), goal, where, "explicit panic reachable outside the states allowed by maypanic")
}

// ---- return ----------------------------------------------------------------------

func (s *State) doReturn(in *ssa.Return) {
	// vacuity guard: some return must be reachable under the accumulated assumptions
	s.coll.obls = append(s.coll.obls, &Obligation{Func: s.eng.fnKey(s.fn), Kind: "vacuity", Name: "return-reachable", Props: s.structProps(),
		Cmds: append([]string(nil), s.cmds...), Goal: "false", Expect: "sat", Where: s.eng.pos(s.fn.Pos()), Path: strings.Join(s.trace, ">")})
	if s.spec == nil {
		return
	}
	env := s.specEnv()
	env.vars = map[string]Val{}
	for k, v := range s.entryVars {
		env.vars[k] = v
	}
	sig := s.fn.Signature
	results := map[string]Val{}
	for i, r := range in.Results {
		v := s.valueOf(r)
		if v.Loc != nil {
			s.unsupported("returning an interior pointer")
		}
		env.vars[fmt.Sprintf("result%d", i)] = v
		results[fmt.Sprintf("result%d", i)] = v
		if len(in.Results) == 1 {
			env.vars["result"] = v
			results["result"] = v
		}
		if n := sig.Results().At(i).Name(); n != "" && n != "_" {
			env.vars[n] = v
		}
	}
	// a return inside loops ends the current iteration of each of them
	for k := len(s.loops) - 1; k >= 0; k-- {
		s.evalSteps(s.loops[k], true, results)
	}
	// ghost variables not named in the modifies clause must be unchanged
	if s.fnFrame != nil && !s.fnFrame.Unrestricted {
		var gs []string
		for g := range s.ghost {
			_, decl := s.eng.ghostDecls[g]
			_, isChan := s.eng.chanGhostT[g]
			if strings.HasPrefix(g, "$spawns_") {
				isChan = true
			}
			if (decl || isChan) && !s.fnFrame.Ghost[g] {
				gs = append(gs, g)
			}
		}
		sortStrings(gs)
		for _, g := range gs {
			v := s.ghost[g]
			var cs []string
			for i, l := range shapeOf(v.T) {
				cs = append(cs, eq(v.Terms[i], s.ghostConst(g, l)))
			}
			s.oblige("frame", "ghost:"+g, s.structProps(), and(cs...), s.eng.pos(in.Pos()), "modifies "+s.fnFrame.Desc)
		}
	}
	env.fn = nil // post-conditions talk about parameters (entry values), results and the heap
	where := s.eng.pos(in.Pos())
	if where == "" {
		where = s.eng.pos(s.fn.Pos())
	}
	for _, c := range s.spec.Ensures {
		c := c
		err := safeSpec(func() {
			s.oblige("post", c.Name, c.Props, env.evalBool(c.Expr), where, c.Src)
		})
		if err != nil {
			s.coll.specErr(s.eng, s.fn, c, err)
		}
	}
}

// ---- inlining of contract-less helper functions --------------------------------------------------
//
// A function of the repository that has no contract is not a reason to give up on its callers: its body is
// executed in place (bounded depth, no recursion), so an extracted helper is verified as part of every
// function that uses it. Loops inside it have no invariants (everything they modify is havocked).

const maxInlineDepth = 3

func (s *State) inlineTarget(c *ssa.CallCommon) (*ssa.Function, []Val) {
	if c.IsInvoke() {
		return nil, nil
	}
	if _, isBuiltin := c.Value.(*ssa.Builtin); isBuiltin {
		return nil, nil
	}
	callee := c.StaticCallee()
	var binds []Val
	if callee == nil {
		if r, ok := s.regs[c.Value]; ok && r.Fn != nil {
			callee = r.Fn
			binds = r.Binds
		}
	} else if mc, ok := c.Value.(*ssa.MakeClosure); ok {
		if r, ok := s.regs[mc]; ok {
			binds = r.Binds
		}
	}
	if callee == nil || !s.eng.inlinable(callee) {
		return nil, nil
	}
	if len(s.inl) >= maxInlineDepth || callee == s.fn {
		return nil, nil
	}
	for _, fr := range s.inl {
		if fr.call.Common().StaticCallee() == callee {
			return nil, nil
		}
	}
	if callee == s.curFn() {
		return nil, nil
	}
	return callee, binds
}

// inlinable: a repository function with a body, without contract and without library specification.
func (e *Engine) inlinable(f *ssa.Function) bool {
	if f == nil || f.Blocks == nil || f.Pkg == nil || e.ssaPkgs[f.Pkg.Pkg.Name()] != f.Pkg {
		if f == nil || f.Blocks == nil || f.Parent() == nil {
			return false
		}
		// anonymous function of a repository function
		p := f.Parent()
		for p.Parent() != nil {
			p = p.Parent()
		}
		if p.Pkg == nil || e.ssaPkgs[p.Pkg.Pkg.Name()] != p.Pkg {
			return false
		}
	}
	if _, ok := e.specs[e.fnKey(f)]; ok {
		return false
	}
	if libSpecFor(f) != nil {
		return false
	}
	if f.Recover != nil {
		return false
	}
	return true
}

func (s *State) inlineCall(call *ssa.Call, callee *ssa.Function, binds []Val, b *ssa.BasicBlock, idx int) {
	args := s.evalArgs(call.Common())
	s.checkAtCalls(callee, args, s.eng.pos(call.Pos()))
	s.coll.notes = append(s.coll.notes, fmt.Sprintf("%s: %s has no contract; its body is verified in place (inlined)", s.eng.fnKey(s.fn), s.eng.fnKey(callee)))
	for i, p := range callee.Params {
		if i < len(args) {
			s.regs[p] = args[i]
		}
	}
	for i, fv := range callee.FreeVars {
		if i < len(binds) {
			s.regs[fv] = binds[i]
		} else {
			s.unsupported("inlined closure %s with unknown bindings", callee.Name())
		}
	}
	s.inl = append(append([]inlineFrame(nil), s.inl...), inlineFrame{code: s.curFn(), block: b, idx: idx, call: call, loopBase: len(s.loops), defers: s.defers, deferArgs: s.deferArgs})
	s.defers, s.deferArgs = nil, nil
	s.code = callee
	s.runBlock(callee.Blocks[0])
}

func (s *State) inlineReturn(in *ssa.Return) {
	fr := s.inl[len(s.inl)-1]
	var parts []Val
	for _, r := range in.Results {
		v := s.valueOf(r)
		parts = append(parts, v)
	}
	var res Val
	switch len(parts) {
	case 0:
	case 1:
		res = parts[0]
	default:
		res = Val{T: s.code.Signature.Results(), Elems: parts}
		for _, p := range parts {
			if p.Loc != nil {
				s.unsupported("inlined helper returns an interior pointer")
			}
			res.Terms = append(res.Terms, p.Terms...)
		}
	}
	// loops of the helper that are still open end here
	s.loops = s.loops[:fr.loopBase]
	s.inl = s.inl[:len(s.inl)-1]
	s.defers, s.deferArgs = fr.defers, fr.deferArgs
	s.code = fr.code
	s.regs[fr.call] = res
	s.trace = append(s.trace, "ret")
	s.runBlockFrom(fr.block, fr.idx+1)
}

// localClosureOf: v is a load of a local cell that is assigned exactly one closure (the `helper := func...` idiom).
func localClosureOf(v ssa.Value) *ssa.Function {
	u, ok := v.(*ssa.UnOp)
	if !ok || u.Op != token.MUL {
		if mc, ok := v.(*ssa.MakeClosure); ok {
			f, _ := mc.Fn.(*ssa.Function)
			return f
		}
		return nil
	}
	a, ok := u.X.(*ssa.Alloc)
	if !ok || a.Referrers() == nil {
		return nil
	}
	var fn *ssa.Function
	n := 0
	for _, r := range *a.Referrers() {
		if st, ok := r.(*ssa.Store); ok && st.Addr == a {
			n++
			switch x := st.Val.(type) {
			case *ssa.MakeClosure:
				fn, _ = x.Fn.(*ssa.Function)
			case *ssa.Function:
				fn = x
			}
		}
	}
	if n != 1 {
		return nil
	}
	return fn
}

// capturedCell: the variable of the enclosing function that a free variable of an anonymous function is bound to,
// when every closure made from that function binds the same Alloc.
func (e *Engine) capturedCell(fv *ssa.FreeVar) *ssa.Alloc {
	fn := fv.Parent()
	if fn == nil || fn.Parent() == nil {
		return nil
	}
	idx := -1
	for i, x := range fn.FreeVars {
		if x == fv {
			idx = i
		}
	}
	if idx < 0 {
		return nil
	}
	var found *ssa.Alloc
	for _, b := range fn.Parent().Blocks {
		for _, in := range b.Instrs {
			mc, ok := in.(*ssa.MakeClosure)
			if !ok || mc.Fn != fn || idx >= len(mc.Bindings) {
				continue
			}
			a, ok := mc.Bindings[idx].(*ssa.Alloc)
			if !ok || (found != nil && found != a) {
				return nil
			}
			found = a
		}
	}
	return found
}

// closureDefinition: a closure made from a side-effect-free string->string function under contract, whose captured
// variables are never assigned again, IS the function its contract describes: for every argument, applying the closure
// value (fn_app_ss) satisfies the function's postconditions. (The function itself is verified against that contract.)
func (s *State) closureDefinition(mc *ssa.MakeClosure, f *ssa.Function, cv Val) {
	spec := s.eng.specs[s.eng.fnKey(f)]
	if spec == nil || !spec.HasMod || len(spec.Modifies) != 0 || spec.Trusted || len(spec.Requires) != 0 {
		return
	}
	sig := f.Signature
	if sig.Params().Len() != 1 || sig.Results().Len() != 1 || !isString(sig.Params().At(0).Type()) || !isString(sig.Results().At(0).Type()) {
		return
	}
	if mc != nil {
		for i, b := range mc.Bindings {
			a, ok := b.(*ssa.Alloc)
			if !ok || !assignedOnce(a) || i >= len(f.FreeVars) || !onlyLoaded(f.FreeVars[i]) {
				return
			}
		}
	} else if len(f.FreeVars) != 0 {
		return
	}
	env := &SpecEnv{st: s, vars: map[string]Val{}, old: s.snapshot()}
	if f.Pkg != nil {
		env.pkg = f.Pkg.Pkg
	} else if f.Parent() != nil && f.Parent().Pkg != nil {
		env.pkg = f.Parent().Pkg.Pkg
	}
	s.eng.counter++
	q := sym(fmt.Sprintf("s?c%d", s.eng.counter))
	env.vars[f.Params[0].Name()] = mkStr(q)
	for i, fv := range f.FreeVars {
		env.vars["&"+fv.Name()] = cv.Binds[i]
	}
	res := mkStr(app("fn_app_ss", cv.Terms[0], q))
	env.vars["result"] = res
	env.vars["result0"] = res
	for _, cl := range spec.Ensures {
		cl := cl
		_ = safeSpec(func() {
			body := env.evalBool(cl.Expr)
			s.assume(fmt.Sprintf("(forall ((%s String)) (! %s :pattern ((fn_app_ss %s %s))))", q, body, cv.Terms[0], q))
		})
	}
	s.eng.assumptionsUsed["a closure value made from a side-effect-free string function under contract satisfies that function's postconditions for every argument (its captured variables are assigned exactly once, before the closure is made)"] = true
}

// assignedOnce: the variable is stored to exactly once in its function (e.g. a parameter spilled on entry).
func assignedOnce(a *ssa.Alloc) bool {
	if a.Referrers() == nil {
		return false
	}
	n := 0
	for _, r := range *a.Referrers() {
		switch r := r.(type) {
		case *ssa.Store:
			if r.Addr != a {
				return false
			}
			n++
		case *ssa.UnOp, *ssa.DebugRef, *ssa.MakeClosure:
		default:
			return false
		}
	}
	return n == 1
}

func onlyLoaded(fv *ssa.FreeVar) bool {
	if fv.Referrers() == nil {
		return true
	}
	for _, r := range *fv.Referrers() {
		switch r := r.(type) {
		case *ssa.UnOp:
			if r.Op != token.MUL {
				return false
			}
		case *ssa.DebugRef:
		default:
			return false
		}
	}
	return true
}
