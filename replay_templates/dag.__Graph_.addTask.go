package dag

// Replay template for Graph.addTask (C16/C13): re-adding a known task must not leave stale vertex copies in edge lists.

import (
	"context"
	"fmt"
	"testing"
	"time"

	"github.com/DavidGamba/go-getoptions"
)

func TestGovcReplay(t *testing.T) {
	fn := func(ctx context.Context, opt *getoptions.GetOpt, args []string) error { return nil }
	t1 := NewTask("t1", fn)
	t2 := NewTask("t2", fn)
	g := NewGraph("g")
	g.TaskDependsOn(t1, t2)
	g.AddTask(t2) // re-adding a task that is already part of the graph
	v1 := g.Vertices["t1"]
	if len(v1.Children) != 1 || v1.Children[0] != g.Vertices["t2"] {
		// consequence on the real scheduler: Run never terminates
		done := make(chan error, 1)
		go func() { done <- g.Run(context.Background(), nil, nil) }()
		hang := false
		select {
		case <-done:
		case <-time.After(2 * time.Second):
			hang = true
		}
		t.Fatalf("GOVC-REPLAY-CONFIRMED: after TaskDependsOn(t1,t2); AddTask(t2) the child of t1 (%p) is not the registered vertex of t2 (%p); Run hangs: %v", v1.Children[0], g.Vertices["t2"], hang)
	}
	fmt.Println("GOVC-REPLAY-NOT-REPRODUCED")
}
