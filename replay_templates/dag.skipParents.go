package dag

// Replay template for skipParents (C13, C14): after skipParents(v) every transitive dependent of v is marked skip and
// nothing else changed - on all DAGs with <= 5 vertices shaped as registered witnesses (diamonds with every edge order).

import (
	"context"
	"fmt"
	"testing"

	"github.com/DavidGamba/go-getoptions"
)

func TestGovcReplay(t *testing.T) {
	// edges "dependent -> dependency"; every permutation of the declaration order is tried
	shapes := [][][2]int{
		{{1, 0}, {2, 0}, {3, 1}, {3, 2}, {4, 2}},
		{{1, 0}, {2, 0}, {2, 1}, {3, 1}},
		{{1, 0}, {2, 0}, {3, 1}, {3, 2}, {4, 1}},
		{{2, 0}, {2, 1}, {3, 1}},
	}
	fn := func(ctx context.Context, opt *getoptions.GetOpt, args []string) error { return nil }
	var perm func(a [][2]int, k int, f func([][2]int))
	perm = func(a [][2]int, k int, f func([][2]int)) {
		if k == len(a) {
			f(a)
			return
		}
		for i := k; i < len(a); i++ {
			a[k], a[i] = a[i], a[k]
			perm(a, k+1, f)
			a[k], a[i] = a[i], a[k]
		}
	}
	for si, sh := range shapes {
		perm(append([][2]int{}, sh...), 0, func(edges [][2]int) {
			g := NewGraph("r")
			tasks := map[int]*Task{}
			for _, e := range edges {
				for _, x := range e {
					if tasks[x] == nil {
						tasks[x] = NewTask(fmt.Sprintf("t%d", x), fn)
						g.AddTask(tasks[x])
					}
				}
			}
			for _, e := range edges {
				g.TaskDependsOn(tasks[e[0]], tasks[e[1]])
			}
			skipParents(g.Vertices["t0"])
			// transitive dependents of t0
			dep := map[int]bool{}
			for changed := true; changed; {
				changed = false
				for _, e := range edges {
					if (e[1] == 0 || dep[e[1]]) && !dep[e[0]] {
						dep[e[0]] = true
						changed = true
					}
				}
			}
			for x := range tasks {
				st := g.Vertices[ID(fmt.Sprintf("t%d", x))].status
				if dep[x] && st != runSkip {
					t.Fatalf("GOVC-REPLAY-CONFIRMED: shape %d edges %v (dependent->dependency, declaration order): after skipParents(t0) the transitive dependent t%d has status %v, not skip", si, edges, x, st)
				}
				if !dep[x] && st != runPending {
					t.Fatalf("GOVC-REPLAY-CONFIRMED: shape %d edges %v: skipParents(t0) changed t%d, which does not depend on t0", si, edges, x)
				}
			}
		})
	}
	fmt.Println("GOVC-REPLAY-NOT-REPRODUCED")
}
