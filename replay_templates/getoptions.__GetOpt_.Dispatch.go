package getoptions

// Replay template for Dispatch / Called / CalledAs (C06, C10, C11): registered witness programs - help given before a
// wrapper command, required options at the selected command, Called/CalledAs queried on the root after a command was selected.

import (
	"bytes"
	"context"
	"errors"
	"fmt"
	"testing"
)

func TestGovcReplay(t *testing.T) {
	build := func() (*GetOpt, *int, *int) {
		calls, wcalls := 0, 0
		opt := New()
		opt.Bool("verbose", false, opt.Alias("v"))
		cmd := opt.NewCommand("cmd", "")
		cmd.String("need", "", opt.Required("need is required"))
		cmd.SetCommandFn(func(ctx context.Context, o *GetOpt, args []string) error { calls++; return nil })
		w := opt.NewCommand("wrapper", "").UnsetOptions()
		w.SetUnknownMode(Pass)
		w.SetCommandFn(func(ctx context.Context, o *GetOpt, args []string) error { wcalls++; return nil })
		opt.HelpCommand("help", opt.Alias("?"))
		return opt, &calls, &wcalls
	}
	type tc struct {
		args     []string
		wantHelp bool
		wantReq  bool
		cmdCalls int
		wCalls   int
	}
	for _, c := range []tc{
		{[]string{"--help", "wrapper"}, true, false, 0, 0},
		{[]string{"-?", "wrapper", "-l"}, true, false, 0, 0},
		{[]string{"--he", "cmd"}, true, false, 0, 0},
		{[]string{"cmd"}, false, true, 0, 0},
		{[]string{"cmd", "--need", "x"}, false, false, 1, 0},
		{[]string{"-v", "wrapper", "-l"}, false, false, 0, 1},
	} {
		opt, calls, wcalls := build()
		var out bytes.Buffer
		Writer = &out
		rem, err := opt.Parse(c.args)
		if err != nil {
			t.Fatalf("GOVC-REPLAY-CONFIRMED: Parse(%q) failed: %v", c.args, err)
		}
		derr := opt.Dispatch(context.Background(), rem)
		switch {
		case c.wantHelp && (!errors.Is(derr, ErrorHelpCalled) || *calls+*wcalls != 0 || out.Len() == 0):
			t.Fatalf("GOVC-REPLAY-CONFIRMED: %q: help was requested; Dispatch returned %v, command functions ran %d times, %d bytes of help written", c.args, derr, *calls+*wcalls, out.Len())
		case c.wantReq && (!errors.Is(derr, ErrorParsing) || *calls+*wcalls != 0):
			t.Fatalf("GOVC-REPLAY-CONFIRMED: %q: a required option is missing; Dispatch returned %v, command functions ran %d times", c.args, derr, *calls+*wcalls)
		case !c.wantHelp && !c.wantReq && (derr != nil || *calls != c.cmdCalls || *wcalls != c.wCalls):
			t.Fatalf("GOVC-REPLAY-CONFIRMED: %q: Dispatch returned %v; cmd ran %d (want %d), wrapper ran %d (want %d)", c.args, derr, *calls, c.cmdCalls, *wcalls, c.wCalls)
		}
		if len(c.args) > 0 && c.args[0] == "-v" {
			if !opt.Called("verbose") || !opt.Called("v") || opt.CalledAs("verbose") != "v" {
				t.Fatalf("GOVC-REPLAY-CONFIRMED: %q: Called(verbose)=%v Called(v)=%v CalledAs(verbose)=%q on the root after a wrapper command was selected", c.args, opt.Called("verbose"), opt.Called("v"), opt.CalledAs("verbose"))
			}
		}
	}
	fmt.Println("GOVC-REPLAY-NOT-REPRODUCED")
}
