package getoptions

// Replay template for the GetEnv modifier (C12, C06): registered witness values per kind against the property's table:
// unset/empty -> default, not called; bool: any casing of true/false only; string: the text; int/float: strconv or default.

import (
	"fmt"
	"os"
	"strconv"
	"strings"
	"testing"
)

func TestGovcReplay(t *testing.T) {
	vals := []string{"", "true", "TRUE", "False", "1", "0", "t", "f", "yes", "12", "-7", "1.5", "x y", "0x10", "1e3"}
	for _, v := range vals {
		os.Setenv("GOVC_REPLAY_ENV", v)
		opt := New()
		b := opt.Bool("b", true, opt.GetEnv("GOVC_REPLAY_ENV"))
		lv := strings.ToLower(v)
		wantB, calledB := true, false
		if lv == "true" || lv == "false" {
			wantB, calledB = lv == "true", true
		}
		if *b != wantB || opt.Called("b") != calledB || (calledB && opt.CalledAs("b") != "GOVC_REPLAY_ENV") {
			t.Fatalf("GOVC-REPLAY-CONFIRMED: Bool(default true) with GOVC_REPLAY_ENV=%q: value %v called %v calledAs %q; the property demands value %v called %v", v, *b, opt.Called("b"), opt.CalledAs("b"), wantB, calledB)
		}
		opt = New()
		s := opt.String("s", "dflt", opt.GetEnv("GOVC_REPLAY_ENV"))
		wantS := "dflt"
		if v != "" {
			wantS = v
		}
		if *s != wantS || opt.Called("s") != (v != "") {
			t.Fatalf("GOVC-REPLAY-CONFIRMED: String with GOVC_REPLAY_ENV=%q: value %q called %v", v, *s, opt.Called("s"))
		}
		opt = New()
		i := opt.Int("i", 42, opt.GetEnv("GOVC_REPLAY_ENV"))
		wantI := 42
		if n, err := strconv.Atoi(v); err == nil && v != "" {
			wantI = n
		}
		if *i != wantI {
			t.Fatalf("GOVC-REPLAY-CONFIRMED: Int(default 42) with GOVC_REPLAY_ENV=%q: value %d; the property demands %d", v, *i, wantI)
		}
		opt = New()
		f := opt.Float64("f", 2.5, opt.GetEnv("GOVC_REPLAY_ENV"))
		wantF := 2.5
		if x, err := strconv.ParseFloat(v, 64); err == nil && v != "" {
			wantF = x
		}
		if *f != wantF {
			t.Fatalf("GOVC-REPLAY-CONFIRMED: Float64(default 2.5) with GOVC_REPLAY_ENV=%q: value %v; the property demands %v", v, *f, wantF)
		}
	}
	os.Unsetenv("GOVC_REPLAY_ENV")
	fmt.Println("GOVC-REPLAY-NOT-REPRODUCED")
}
