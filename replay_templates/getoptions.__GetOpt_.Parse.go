package getoptions

// Replay template for Parse: determinism of the reported diagnostic (C20) and the required-option rule (C11).

import (
	"fmt"
	"os"
	"strings"
	"testing"
)

func TestGovcReplay(t *testing.T) {
	obl := os.Getenv("GOVC_OBLIGATION")
	if strings.Contains(obl, "req.which") || strings.Contains(obl, "req.") {
		// three missing required options: the reported one must be chosen by a fixed rule
		seen := map[string]int{}
		for i := 0; i < 300; i++ {
			opt := New()
			opt.String("alpha", "", opt.Required())
			opt.String("beta", "", opt.Required())
			opt.String("gamma", "", opt.Required())
			_, err := opt.Parse([]string{})
			if err == nil {
				t.Fatalf("GOVC-REPLAY-CONFIRMED: missing required options were not reported")
			}
			seen[err.Error()]++
		}
		t.Logf("messages over 300 runs: %v", seen)
		if len(seen) != 1 {
			t.Fatalf("GOVC-REPLAY-CONFIRMED: the same definition and input produced %d different error messages: %v", len(seen), seen)
		}
	}
	fmt.Println("GOVC-REPLAY-NOT-REPRODUCED")
}
