package getoptions

// Replay template for Parse: determinism of the reported diagnostic (C20) and the required-option rule (C11).

import (
	"bytes"
	"fmt"
	"os"
	"regexp"
	"strings"
	"testing"
)

func TestGovcReplay(t *testing.T) {
	obl := os.Getenv("GOVC_OBLIGATION")
	if strings.Contains(obl, "req.which") || strings.Contains(obl, "req.") {
		// three missing required options: the reported one must be chosen by a fixed rule
		seen := map[string]int{}
		for i := 0; i < 300; i++ {
			opt := New()
			opt.String("alpha", "", opt.Required())
			opt.String("beta", "", opt.Required())
			opt.String("gamma", "", opt.Required())
			_, err := opt.Parse([]string{})
			if err == nil {
				t.Fatalf("GOVC-REPLAY-CONFIRMED: missing required options were not reported")
			}
			seen[err.Error()]++
		}
		t.Logf("messages over 300 runs: %v", seen)
		if len(seen) != 1 {
			t.Fatalf("GOVC-REPLAY-CONFIRMED: the same definition and input produced %d different error messages: %v", len(seen), seen)
		}
	}
	if strings.Contains(obl, "comp.words") {
		// the words the completion walk receives are the pieces of COMP_LINE between runs of ASCII white space
		// (a trailing empty word may be dropped): compare Parse's completion output with a direct walk over the reference words
		build := func() *GetOpt {
			opt := New()
			opt.String("city", "", opt.SuggestedValues("New\u00a0York", "New\u3000Delhi", "Paris"))
			opt.String("msg", "")
			log := opt.NewCommand("log", "")
			log.ArgCompletions("San\u00a0Jose", "San\u00a0Juan", "Lima")
			opt.NewCommand("lower", "")
			show := opt.NewCommand("show", "")
			show.NewCommand("lower", "")
			return opt
		}
		ref := regexp.MustCompile("[\t\n\f\r ]+")
		lines := []string{"./program lo", "./program --city=New\u00a0Y", "./program --msg=fix\u00a0show lo", "./program log San\u00a0", "./program --msg=a\u3000show lo",
			"./program --msg=a\vshow lo", "./program --msg=a\u0085show lo", "./program --msg=a\u202fshow lo", "./program  show  lo", "./program\tshow lo", "./program show ", " ./program lo"}
		oldExit, oldCW := exitFn, completionWriter
		defer func() { exitFn, completionWriter = oldExit, oldCW }()
		exitFn = func(int) {}
		for _, line := range lines {
			for _, args := range [][]string{{"./program", "lo", "./program"}, {"./program", "", "./program"}, {}} {
				words := ref.Split(line, -1)
				if len(words) > 0 && words[len(words)-1] == "" && len(args) > 2 && args[1] != "" {
					words = words[:len(words)-1]
				}
				_, want, werr := parseCLIArgs("bash", build().programTree, words, Normal)
				var buf bytes.Buffer
				completionWriter = &buf
				os.Setenv("COMP_LINE", line)
				build().Parse(args)
				os.Unsetenv("COMP_LINE")
				if werr != nil {
					continue
				}
				if got := buf.String(); got != strings.Join(want, "\n")+"\n" {
					t.Fatalf("GOVC-REPLAY-CONFIRMED: COMP_LINE %q: completion printed %q, the walk over the words %q gives %q", line, got, words, want)
				}
			}
		}
	}
	fmt.Println("GOVC-REPLAY-NOT-REPRODUCED")
}
