package getoptions

// Replay template for NewCommand / copyOptionsFromParent / UnsetOptions (C05, C06, C08, C10, C11, C17): a command holds
// exactly the option records of its ancestors at the time of the last NewCommand on an ancestor, a wrapper holds none of
// them, settings are copied at declaration - on registered witness definitions.

import (
	"fmt"
	"testing"
)

func TestGovcReplay(t *testing.T) {
	// 1. options declared before and between commands reach every level below (same records)
	opt := New()
	opt.SetUnknownMode(Warn)
	opt.Bool("verbose", false, opt.Alias("v"))
	a := opt.NewCommand("a", "")
	a.SetRequireOrder()
	sub := a.NewCommand("sub", "")
	opt.String("late", "", opt.Alias("l"))
	opt.NewCommand("b", "")
	for _, k := range []string{"verbose", "v", "late", "l"} {
		for name, n := range map[string]*programTree{"a": a.programTree, "a sub": sub.programTree} {
			if n.ChildOptions[k] == nil || n.ChildOptions[k] != opt.programTree.ChildOptions[k] {
				t.Fatalf("GOVC-REPLAY-CONFIRMED: root option %q is not inherited (same record) by command %q after a later NewCommand on the root", k, name)
			}
		}
	}
	if a.programTree.unknownMode != Warn || sub.programTree.unknownMode != Warn || !a.programTree.requireOrder || !sub.programTree.requireOrder || opt.programTree.requireOrder {
		t.Fatalf("GOVC-REPLAY-CONFIRMED: unknown mode / require-order are not the values set on the command itself or copied from its parent at declaration (a: %v %v, sub: %v %v)", a.programTree.unknownMode, a.programTree.requireOrder, sub.programTree.unknownMode, sub.programTree.requireOrder)
	}
	// 2. a wrapper drops what it inherited (aliases included), keeps what it declares itself, and hands that on
	opt = New()
	opt.Bool("long", false, opt.Alias("L"))
	w := opt.NewCommand("wrap", "").UnsetOptions()
	w.String("profile", "")
	run := w.NewCommand("run", "")
	opt.NewCommand("other", "")
	for _, k := range []string{"long", "L"} {
		if _, ok := w.programTree.ChildOptions[k]; ok {
			t.Fatalf("GOVC-REPLAY-CONFIRMED: the wrapper command (UnsetOptions) still knows the inherited key %q", k)
		}
	}
	if run.programTree.ChildOptions["profile"] == nil || run.programTree.ChildOptions["profile"] != w.programTree.ChildOptions["profile"] {
		t.Fatalf("GOVC-REPLAY-CONFIRMED: the wrapper's own option is not inherited by its sub-command")
	}
	fmt.Println("GOVC-REPLAY-NOT-REPRODUCED")
}
