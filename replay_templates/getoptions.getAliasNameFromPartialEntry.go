package getoptions

// Replay template for getAliasNameFromPartialEntry (C05, C20): a small property-level oracle on registered witness
// tables - an exact key wins; otherwise exactly the keys that start with the typed text, each once; repeated runs agree.

import (
	"fmt"
	"sort"
	"strings"
	"testing"
)

func TestGovcReplay(t *testing.T) {
	tables := [][][]string{ // each option: name followed by aliases
		{{"no-color", "no-colour"}, {"verbose"}},
		{{"list", "list-all", "list-long"}, {"lint", "lint-all"}},
		{{"verbose", "verb", "verbosity"}, {"version"}},
		{{"profile", "prof"}, {"password"}},
		{{"a"}, {"ab"}, {"abc"}},
	}
	for ti, tbl := range tables {
		var keys []string
		for _, o := range tbl {
			keys = append(keys, o...)
		}
		entries := map[string]bool{}
		for _, k := range keys {
			for i := 1; i <= len(k); i++ {
				entries[k[:i]] = true
			}
		}
		entries["zz"] = true
		for e := range entries {
			want := []string{}
			exact := false
			for _, k := range keys {
				if k == e {
					exact = true
				}
			}
			if exact {
				want = []string{e}
			} else {
				for _, k := range keys {
					if strings.HasPrefix(k, e) {
						want = append(want, k)
					}
				}
			}
			sort.Strings(want)
			for run := 0; run < 40; run++ {
				opt := New()
				for _, o := range tbl {
					if len(o) > 1 {
						opt.Bool(o[0], false, opt.Alias(o[1:]...))
					} else {
						opt.Bool(o[0], false)
					}
				}
				got := append([]string{}, getAliasNameFromPartialEntry(opt.programTree, e)...)
				sort.Strings(got)
				if fmt.Sprint(got) != fmt.Sprint(want) {
					t.Fatalf("GOVC-REPLAY-CONFIRMED: table %d %v, entry %q: candidates %v, the property demands %v (run %d)", ti, tbl, e, got, want, run)
				}
			}
		}
	}
	fmt.Println("GOVC-REPLAY-NOT-REPRODUCED")
}
