package getoptions

// Replay template for isOption: evaluates the property-level oracle (C01, C04, C07) on the model's token.

import (
	"strings"
	"testing"
)

func govcLooksLikeOption(s string) bool {
	return s == "-" || (strings.HasPrefix(s, "-") && s != "--" && len(s) >= 2 && s[1] != '=')
}

func TestGovcReplay(t *testing.T) {
	m := govcLoadModel()
	s := m.Str("in:s")
	mode := Mode(m.Int("in:mode"))
	if _, has := m.find("in:s"); !has {
		// no model (the failed obligation involves uninterpreted rune conversions): registered witness
		s, mode = "-x\xffabc", SingleDash
	}
	pairs, is := isOption(s, mode, false)
	t.Logf("input s=%q mode=%d -> pairs=%#v is=%v", s, mode, pairs, is)
	bad := ""
	if is != govcLooksLikeOption(s) {
		bad = "is-option flag differs from the token syntax"
	}
	isLong := strings.HasPrefix(s, "--") && len(s) > 2 && s[2] != '='
	if bad == "" && (isLong || (govcLooksLikeOption(s) && s != "-" && mode == Normal)) {
		d := 1
		if isLong {
			d = 2
		}
		rest := s[d:]
		name, val := rest, ""
		if i := strings.Index(rest, "="); i >= 0 {
			name, val = rest[:i], rest[i+1:]
		}
		switch {
		case len(pairs) != 1:
			bad = "expected exactly one option/value pair"
		case pairs[0].Option != name:
			bad = "option name differs from the text before the first '='"
		case val == "" && len(pairs[0].Args) != 0:
			bad = "unexpected attached value"
		case val != "" && (len(pairs[0].Args) != 1 || pairs[0].Args[0] != val):
			bad = "attached value differs from the text after the first '='"
		}
	}
	if bad == "" && govcLooksLikeOption(s) && s != "-" && !isLong && mode == SingleDash {
		// -xREST is --x=REST: name + value give back the token text
		if len(pairs) != 1 {
			bad = "expected exactly one pair in SingleDash mode"
		} else {
			v := ""
			if len(pairs[0].Args) == 1 {
				v = pairs[0].Args[0]
			}
			if pairs[0].Option+v != s[1:] {
				bad = "option letter + attached value differ from the token text"
			}
		}
	}
	if bad != "" {
		t.Fatalf("GOVC-REPLAY-CONFIRMED: %s (s=%q mode=%d pairs=%#v is=%v)", bad, s, mode, pairs, is)
	}
	t.Log("GOVC-REPLAY-NOT-REPRODUCED")
}
