package getoptions

// Replay template for parseCLIArgs / Parse: a small property-level oracle for remaining-argument
// conservation (C03), terminator (C04), unknown options (C08) and require-order (C09), run on a fixed
// set of witness command lines (the failed obligations here are quantified and the solvers return no model).

import (
	"fmt"
	"os"
	"reflect"
	"strings"
	"testing"
)

type govcCase struct {
	name    string
	obl     string // obligation family this witness belongs to
	setup   func(*GetOpt)
	args    []string
	want    []string
	wantErr bool
}

func TestGovcReplay(t *testing.T) {
	obl := os.Getenv("GOVC_OBLIGATION")
	cases := []govcCase{
		{"text before command is kept", "cmd.carry", func(o *GetOpt) { o.NewCommand("cmd", "") }, []string{"foo", "cmd", "bar"}, []string{"foo", "bar"}, false},
		{"unknown option before command is reported", "cmd.carry", func(o *GetOpt) { o.NewCommand("cmd", "") }, []string{"--unk", "cmd", "bar"}, nil, true},
		{"unknown option before command passes through", "cmd.carry", func(o *GetOpt) { o.SetUnknownMode(Pass); o.NewCommand("cmd", "") }, []string{"--unk", "cmd", "bar"}, []string{"--unk", "bar"}, false},
		{"bundled unknown letters appear once", "pairs.once", func(o *GetOpt) { o.SetMode(Bundling); o.SetUnknownMode(Pass) }, []string{"-xy", "z"}, []string{"-xy", "z"}, false},
		{"optional value does not swallow terminator", "max.take", func(o *GetOpt) { o.StringOptional("so", "def") }, []string{"--so", "--", "x"}, []string{"x"}, false},
		{"multi value does not swallow terminator", "max.take", func(o *GetOpt) { o.StringSlice("ss", 1, 3) }, []string{"--ss", "a", "--", "x"}, []string{"x"}, false},
		{"int optional value does not swallow terminator", "max.take|pair.optional", func(o *GetOpt) { o.IntOptional("io", 7) }, []string{"--io", "--", "x"}, []string{"x"}, false},
		{"float optional value does not swallow terminator", "max.take|pair.optional", func(o *GetOpt) { o.Float64Optional("fo", 1.5) }, []string{"--fo", "--", "x"}, []string{"x"}, false},
		{"string optional value does not swallow terminator", "pair.optional", func(o *GetOpt) { o.StringOptional("so", "def") }, []string{"--so", "--", "x"}, []string{"x"}, false},
		{"int slice does not swallow terminator", "max.take", func(o *GetOpt) { o.IntSlice("is", 1, 3) }, []string{"--is", "1", "--", "2"}, []string{"2"}, false},
		{"float slice does not swallow terminator", "max.take", func(o *GetOpt) { o.Float64Slice("fs", 1, 3) }, []string{"--fs", "1.5", "--", "2"}, []string{"2"}, false},
		{"map does not swallow terminator", "max.take", func(o *GetOpt) { o.StringMap("m", 1, 3) }, []string{"--m", "k=v", "--", "a=b"}, []string{"a=b"}, false},
		{"require order stops at a bundle with an unknown letter", "pair.unknown.stop", func(o *GetOpt) { o.SetMode(Bundling); o.SetUnknownMode(Pass); o.SetRequireOrder(); o.Bool("a", false); o.Bool("known", false) },
			[]string{"-xa", "--known", "z"}, []string{"-xa", "--known", "z"}, false},
		{"require order: a bundle with an unknown letter is handed over whole, nothing of it applied", "pair.unknown.stop", func(o *GetOpt) { o.SetMode(Bundling); o.SetUnknownMode(Pass); o.SetRequireOrder(); o.String("a", "") },
			[]string{"-ab", "val", "x"}, []string{"-ab", "val", "x"}, false},
		{"require order stops at an unknown option", "pair.unknown.stop", func(o *GetOpt) { o.SetUnknownMode(Pass); o.SetRequireOrder(); o.Bool("known", false) },
			[]string{"--unk", "--known", "z"}, []string{"--unk", "--known", "z"}, false},
		{"slice option without an upper limit takes several values", "makeslice", func(o *GetOpt) { o.StringSlice("files", 1, int(^uint(0)>>1)) }, []string{"--files", "a", "b", "--", "x"}, []string{"x"}, false},
		{"map option without an upper limit takes several values", "makeslice", func(o *GetOpt) { o.StringMap("kv", 1, int(^uint(0)>>1)) }, []string{"--kv", "a=1", "b=2", "--", "x"}, []string{"x"}, false},
		{"terminator ends parsing", "term.stops", func(o *GetOpt) { o.Bool("flag", false) }, []string{"a", "--", "--flag", "b"}, []string{"a", "--flag", "b"}, false},
		{"require order stops at first positional", "text.stop", func(o *GetOpt) { o.Bool("flag", false); o.SetRequireOrder() }, []string{"a", "--flag"}, []string{"a", "--flag"}, false},
	}
	ran := 0
	for _, c := range cases {
		match := false
		for _, fam := range strings.Split(c.obl, "|") {
			if strings.Contains(obl, fam) {
				match = true
			}
		}
		if !match {
			continue
		}
		ran++
		opt := New()
		c.setup(opt)
		var rem []string
		var err error
		func() {
			defer func() {
				if r := recover(); r != nil {
					t.Fatalf("GOVC-REPLAY-CONFIRMED: %s: Parse(%q) panicked: %v", c.name, c.args, r)
				}
			}()
			rem, err = opt.Parse(c.args)
		}()
		t.Logf("%s: Parse(%q) -> %q, %v", c.name, c.args, rem, err)
		if c.wantErr {
			if err == nil {
				t.Fatalf("GOVC-REPLAY-CONFIRMED: %s: Parse(%q) returned no error (remaining %q)", c.name, c.args, rem)
			}
			continue
		}
		if err != nil || !reflect.DeepEqual(append([]string{}, rem...), c.want) {
			t.Fatalf("GOVC-REPLAY-CONFIRMED: %s: Parse(%q) = %q, %v; the property demands %q", c.name, c.args, rem, err, c.want)
		}
	}
	if ran == 0 {
		t.Log("no witness registered for this obligation")
	}
	fmt.Println("GOVC-REPLAY-NOT-REPRODUCED")
}
