package help

// Replay template for the per-option synopsis rendering (C18): every option kind must be mentioned in the SYNOPSIS.

import (
	"fmt"
	"strings"
	"testing"

	"github.com/DavidGamba/go-getoptions/internal/option"
)

func TestGovcReplay(t *testing.T) {
	var b bool
	var s string
	var i int
	var f float64
	var ss []string
	var is []int
	var fs []float64
	m := map[string]string{}
	opts := []*option.Option{
		option.New("kbool", option.BoolType, &b), option.New("kincr", option.IncrementType, &i),
		option.New("kstr", option.StringType, &s), option.New("kint", option.IntType, &i), option.New("kfloat", option.Float64Type, &f),
		option.New("kstropt", option.StringOptionalType, &s), option.New("kintopt", option.IntOptionalType, &i), option.New("kfloatopt", option.Float64OptionalType, &f),
		option.New("kstrs", option.StringRepeatType, &ss), option.New("kints", option.IntRepeatType, &is), option.New("kfloats", option.Float64RepeatType, &fs),
		option.New("kmap", option.StringMapType, &m),
	}
	for _, req := range []bool{false, true} {
		for _, o := range opts {
			o.IsRequired = req
		}
		txt := Synopsis("", "prog", nil, opts, nil)
		for _, o := range opts {
			if !strings.Contains(txt, o.HelpSynopsis) {
				t.Fatalf("GOVC-REPLAY-CONFIRMED: option %q (kind %d, required=%v) is not mentioned in the synopsis:\n%s", o.Name, o.OptType, req, txt)
			}
		}
	}
	fmt.Println("GOVC-REPLAY-NOT-REPRODUCED")
}
