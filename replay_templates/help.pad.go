package help

// Replay template for the help section renderers (C18, C19): registered witness option lists - every option is mentioned in
// the synopsis and in the option list (default shown for non-required ones) whatever the line length; non-ASCII names do not panic.

import (
	"fmt"
	"strings"
	"testing"

	"github.com/DavidGamba/go-getoptions/internal/option"
)

func TestGovcReplay(t *testing.T) {
	mk := func(name string, req bool, aliases ...string) *option.Option {
		s := ""
		o := option.New(name, option.StringType, &s)
		o.SetAlias(aliases...)
		o.SetDefaultStr("dflt-" + name)
		if req {
			o.SetRequired("")
		}
		return o
	}
	var sets [][]*option.Option
	sets = append(sets, []*option.Option{mk("alpha", false, "a"), mk("zulu", true), mk("mike", false, "m", "mi")})
	var long []*option.Option
	for i := 0; i < 12; i++ {
		long = append(long, mk(fmt.Sprintf("a-rather-long-option-name-%02d", i), i%5 == 0))
	}
	sets = append(sets, long)
	sets = append(sets, []*option.Option{mk("größenänderungsmaß", false), mk("файлы", true, "ф")})
	sets = append(sets, []*option.Option{mk("файлы-каталог-настройки", false), mk("x", false)})
	for si, opts := range sets {
		var syn, list string
		func() {
			defer func() {
				if r := recover(); r != nil {
					t.Fatalf("GOVC-REPLAY-CONFIRMED: option set %d: the help renderer panicked: %v", si, r)
				}
			}()
			syn = Synopsis("", "prog", nil, append([]*option.Option{}, opts...), []string{"cmd"})
			list = OptionList([]SynopsisArg{{Arg: "<каталог>", Description: "directory"}}, append([]*option.Option{}, opts...))
		}()
		for _, o := range opts {
			if strings.Count(syn, o.HelpSynopsis) < 1 {
				t.Fatalf("GOVC-REPLAY-CONFIRMED: option set %d: %q is missing from the synopsis:\n%s", si, o.HelpSynopsis, syn)
			}
			if strings.Count(list, o.HelpSynopsis) < 1 {
				t.Fatalf("GOVC-REPLAY-CONFIRMED: option set %d: %q is missing from the option list:\n%s", si, o.HelpSynopsis, list)
			}
			if !o.IsRequired && !strings.Contains(list, "(default: "+o.DefaultStr) {
				t.Fatalf("GOVC-REPLAY-CONFIRMED: option set %d: the default of %q is not shown", si, o.Name)
			}
		}
	}
	fmt.Println("GOVC-REPLAY-NOT-REPRODUCED")
}
