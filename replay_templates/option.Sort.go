package option

// Replay template for option.Sort and its comparison (C18, C20): the order Sort produces must depend on the names only,
// not on the order in which the records arrive (they are collected by ranging over a map). Witness name sets with
// near-ties: common prefixes, a "no-" prefix, case, digits, the lone dash, the empty name.

import (
	"fmt"
	"strings"
	"testing"
)

func TestGovcReplay(t *testing.T) {
	sets := [][]string{
		{"color", "no-color", "cache"},
		{"a", "A", "ab", "a-b"},
		{"no-x", "x", "no-", "no"},
		{"-", "", "--", "z"},
		{"v1", "v10", "v2", "V1"},
		{"ünï", "uni", "Uni", "unì"},
	}
	for _, names := range sets {
		var first string
		perm(len(names), func(ix []int) {
			var list []*Option
			for _, k := range ix {
				s := ""
				list = append(list, New(names[k], StringType, &s))
			}
			Sort(list)
			var got []string
			for _, o := range list {
				got = append(got, o.Name)
			}
			for i := 1; i < len(got); i++ {
				if got[i-1] > got[i] {
					t.Fatalf("GOVC-REPLAY-CONFIRMED: Sort(%q in input order %v) = %q is not ordered by name", names, ix, got)
				}
			}
			g := strings.Join(got, "\x00")
			if first == "" {
				first = g
			} else if g != first {
				t.Fatalf("GOVC-REPLAY-CONFIRMED: Sort gives %q for one input order of the names %q and %q for another", strings.Split(g, "\x00"), names, strings.Split(first, "\x00"))
			}
		})
	}
	fmt.Println("GOVC-REPLAY-NOT-REPRODUCED")
}

func perm(n int, f func([]int)) {
	ix := make([]int, n)
	for i := range ix {
		ix[i] = i
	}
	var rec func(k int)
	rec = func(k int) {
		if k == n {
			f(append([]int{}, ix...))
			return
		}
		for i := k; i < n; i++ {
			ix[k], ix[i] = ix[i], ix[k]
			rec(k + 1)
			ix[k], ix[i] = ix[i], ix[k]
		}
	}
	rec(0)
}
