#!/bin/bash
# usage: mut.sh <func-regexp> <file> <sed-expr>  -- apply a sed mutation on a scratch copy of /repo and run govc on the functions
set -u
S=$(mktemp -d /tmp/mut.XXXXXX)
cp -r /repo/. $S/
cd $S
sed -i "$3" "$2"
if git diff --quiet; then echo "MUTATION DID NOT APPLY"; rm -rf $S; exit 3; fi
git diff | grep '^[+-]' | grep -v '^+++\|^---' | head -6
export GOFLAGS=-mod=mod GOPROXY=off GOSUMDB=off GOTOOLCHAIN=local
if ! go build ./... 2>/dev/null; then echo "DOES NOT COMPILE"; rm -rf $S; exit 4; fi
/verif/bin/govc run -repo $S -func "$1" 2>&1 | grep -v "^  " | grep "^failed\|obligations" | cut -c1-220
cd /; rm -rf $S
