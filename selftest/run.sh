#!/bin/bash
# Must-fail / must-stay-green corpus for the machinery itself: every line of corpus.tsv is applied to a scratch copy
# of /repo (outside /repo and /verif, removed afterwards) and the named functions are re-verified.
set -u
cd /verif/selftest
fail=0; n=0
grep -v '^#' corpus.tsv | while IFS=$'\t' read -r kind prop fre file sedexpr; do
  [ -z "$kind" ] && continue
  n=$((n+1))
  out=$(./mut.sh "$fre" "$file" "$sedexpr" 2>&1)
  if echo "$out" | grep -q "MUTATION DID NOT APPLY\|DOES NOT COMPILE"; then echo "SKIP   $kind $prop $file :: $(echo "$out" | grep -o 'MUTATION DID NOT APPLY\|DOES NOT COMPILE') :: $sedexpr"; continue; fi
  nf=$(echo "$out" | grep -c '^failed')
  if [ "$kind" = mutant ] && [ "$nf" -eq 0 ]; then echo "MISSED $prop $file :: $sedexpr"; fi
  if [ "$kind" = mutant ] && [ "$nf" -gt 0 ]; then echo "caught $prop $file :: $(echo "$out" | grep '^failed' | awk '{print $4}' | sed 's/#[0-9]*$//' | sort -u | head -2 | tr '\n' ' ')"; fi
  if [ "$kind" = benign ] && [ "$nf" -gt 0 ]; then echo "FALSE-ALARM $prop $file :: $sedexpr :: $(echo "$out" | grep '^failed' | awk '{print $4}' | head -2 | tr '\n' ' ')"; fi
  if [ "$kind" = benign ] && [ "$nf" -eq 0 ]; then echo "green  $prop $file :: $sedexpr"; fi
done
