#!/bin/bash
# Must-fail / must-stay-green corpus for the machinery itself: every line of corpus.tsv is applied to a scratch copy
# of /repo (outside /repo and /verif, removed afterwards) and the named functions are re-verified.
set -u
cd /verif/selftest
fail=0; n=0
grep -v '^#' corpus.tsv | while IFS=$'\t' read -r kind prop fre file sedexpr; do
  [ -z "$kind" ] && continue
  n=$((n+1))
  out=$(./mut.sh "$fre" "$file" "$sedexpr" 2>&1)
  if echo "$out" | grep -q "MUTATION DID NOT APPLY\|DOES NOT COMPILE"; then echo "SKIP   $kind $prop $file :: $(echo "$out" | grep -o 'MUTATION DID NOT APPLY\|DOES NOT COMPILE') :: $sedexpr"; continue; fi
  nf=$(echo "$out" | grep -c '^failed')
  if [ "$kind" = mutant ] && [ "$nf" -eq 0 ]; then echo "MISSED $prop $file :: $sedexpr"; fi
  if [ "$kind" = mutant ] && [ "$nf" -gt 0 ]; then echo "caught $prop $file :: $(echo "$out" | grep '^failed' | awk '{print $4}' | sed 's/#[0-9]*$//' | sort -u | head -2 | tr '\n' ' ')"; fi
  if [ "$kind" = benign ] && [ "$nf" -gt 0 ]; then echo "FALSE-ALARM $prop $file :: $sedexpr :: $(echo "$out" | grep '^failed' | awk '{print $4}' | head -2 | tr '\n' ' ')"; fi
  if [ "$kind" = benign ] && [ "$nf" -eq 0 ]; then echo "green  $prop $file :: $sedexpr"; fi
done

# patch-based entries: selftest/patches/benign-*.diff must stay green, mutant-*.diff must fail (functions: all contracts of the touched packages)
for pf in /verif/selftest/patches/*.diff; do
  [ -f "$pf" ] || continue
  kind=$(basename $pf | cut -d- -f1)
  S=$(mktemp -d /tmp/mutp.XXXXXX); cp -r /repo/. $S/; ( cd $S && git apply $pf ) || { echo "SKIP   $kind $(basename $pf) :: PATCH DOES NOT APPLY"; rm -rf $S; continue; }
  fre=$(grep '^+++ b/' $pf | sed 's|^+++ b/||' | while read f; do case $f in dag/*) echo 'dag\.';; internal/option/*) echo 'option\.';; internal/help/*) echo 'help\.';; internal/sliceiterator/*) echo 'sliceiterator\.';; *) echo 'getoptions\.';; esac; done | sort -u | paste -sd'|')
  out=$(cd $S && GOFLAGS=-mod=mod GOPROXY=off GOSUMDB=off GOTOOLCHAIN=local go build ./... 2>&1 | head -3)
  if [ -n "$out" ]; then echo "SKIP   $kind $(basename $pf) :: DOES NOT COMPILE"; rm -rf $S; continue; fi
  nf=$(/verif/bin/govc run -repo $S -func "$fre" 2>&1 | grep -c '^failed')
  rm -rf $S
  if [ "$kind" = benign ] && [ "$nf" -gt 0 ]; then echo "FALSE-ALARM $(basename $pf) :: $nf failed"; fi
  if [ "$kind" = benign ] && [ "$nf" -eq 0 ]; then echo "green  $(basename $pf)"; fi
  if [ "$kind" = mutant ] && [ "$nf" -eq 0 ]; then echo "MISSED $(basename $pf)"; fi
  if [ "$kind" = mutant ] && [ "$nf" -gt 0 ]; then echo "caught $(basename $pf) :: $nf failed"; fi
  # brittle-*: behaviour-preserving changes that are KNOWN to raise an alarm (documented limitation, DESIGN.md section 11)
  if [ "$kind" = brittle ]; then echo "brittle $(basename $pf) :: $nf failed (known limitation)"; fi
done
