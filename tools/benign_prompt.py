#!/usr/bin/env python3
"""usage: benign_prompt.py <worktree-name> <area>  -- prompt for a sub-agent that produces a behaviour-preserving refactoring."""
import sys
wt, area = sys.argv[1], sys.argv[2]
print(f"""You are a maintainer doing a routine clean-up of the Go library DavidGamba/go-getoptions (command-line option parser with subcommands, abbreviations, bundling modes, shell completion, help generation, plus a small parallel DAG task runner in ./dag). You have your own scratch git worktree at /tmp/seedwt/{wt} — work ONLY inside that directory (never touch /repo or /verif, never read git history or other directories under /tmp). The sandbox has no network; prefix every go command with:
  GOFLAGS=-mod=mod GOPROXY=off GOSUMDB=off GOTOOLCHAIN=local

Task: make a realistic, STRICTLY BEHAVIOUR-PRESERVING refactoring of the non-test source in this area: {area}
The kind of change a reviewer would wave through as "no functional change": e.g. extract a small helper function from a long function, inline a trivial helper, replace an if/else chain by a switch (or the reverse), hoist a repeated expression into a local variable, reorder independent statements, replace a manual loop by an equivalent one, early-return instead of nested else, rename a local variable or two, split a condition, use a named constant. Make 2 to 4 such edits (together 15-60 changed lines). Do NOT change any observable behaviour for ANY input (including odd inputs: empty strings, invalid UTF-8, duplicates, nil, huge numbers, any map iteration order, any goroutine schedule), do not change exported API, error texts, output texts, or the order of side effects.

Requirements:
  1. `go build ./...` succeeds, `gofmt -l .` prints nothing for the files you touched, and the COMPLETE existing test suite passes: `go test -vet=off -count=1 ./...`.
  2. Think hard about equivalence on corner cases before finishing; if in doubt about an edit, drop it.
Finally, in the worktree root write:
  - patch.diff: `git diff > patch.diff` (only your source change; patch.diff itself must not be inside it). Do NOT use `git stash`, `git commit`, `git checkout` of other revisions or any other git command that writes to the shared repository.
  - refactor_notes.txt: a list of the edits and, for each, one sentence on why it cannot change behaviour.
Leave the worktree with the change applied. Reply with a short summary of the edits.""")
