HOOK_COMMITS = []  # filled by gen_manifest from git log (commits whose subject starts with "verif:")

TECH = "contract-based deductive verification (govc): SMT-discharged verification conditions generated from go/ssa of the real functions against in-repo contracts (requires/ensures/modifies/loop invariants/variants/per-iteration step clauses)"

COMMON_NOTE = ("Trusted base: go/ssa (x/tools v0.29.0) faithfulness, the govc encoding, SMT solvers (z3 4.8.12, z3 5.1.0, cvc5 1.0), library specifications listed in the evidence "
               "(strings/strconv/fmt/sort/regexp closed form/errors). History assumptions: the definition was made through the public definers (TreeOK), Parse is called once per definition. "
               "Per-iteration step clauses are composed into the whole-run statement by the (unmechanised) induction over the token sequence described in DESIGN.md section 3.2.")

CLAIMED = {
 "C01": (TECH,
   "Proved for all inputs: isOption splits --name=value at the first '=' for every value text (incl. newlines, dashes, '='); Option.Save stores strings unchanged and numbers exactly as strconv yields them, errors leave the receiver untouched; the argument walk takes an attached value or exactly the next non-option token, marks the option called with its full key, and returns a parse error otherwise (pair.scalar.*, pair.optional.*, pair.flag.*, min.* step clauses of parseCLIArgs).",
   COMMON_NOTE, "DESIGN.md section 4 C01"),
 "C02": (TECH,
   "Proved for all inputs: Save appends in order for slice kinds, expands a..b inclusively and terminates (loop variant), splits key=value at the first '='; AddChildOption admits slice/map options only with 1<=min<=max; the minimum loop takes exactly the missing tokens or fails, the greedy loop takes a token iff it exists, is not option-looking, is not '--' and is well-formed for the element type, one token per iteration, stored by exactly one Save (min.*, max.* step clauses, min.seq/max.seq order invariants for string slices).",
   COMMON_NOTE + " Order invariants (min.seq/max.seq) are stated for []string; for []int/[]float64/map the per-token step clause (max.saved/min.saved) is proved instead.", "DESIGN.md section 4 C02"),
 "C03": (TECH,
   "Proved per iteration of the argument walk, for all argv/trees/modes: a positional is appended exactly once and verbatim (text.keep), the tail after '--' or after the require-order stop point is copied verbatim and in order (term.stops, text.stop, storeRemainingAsText), a command descent carries the collected text and unknown options to the command node (cmd.carry), an option token changes the text list by at most its own verbatim token, once (opt.once, pairs.once), and every other node's lists are untouched.",
   COMMON_NOTE, "DESIGN.md section 4 C03"),
 "C04": (TECH,
   "Proved for all inputs: isOption never classifies '--' as an option; the iteration that meets '--' leaves the loop with nothing but the verbatim tail appended and no option, node or unknown list changed (term.stops); the greedy/optional value loop never takes '--' (max.take, pair.optional.novalue).",
   COMMON_NOTE, "DESIGN.md section 4 C04"),
 "C05": (TECH,
   "Proved for all option tables: getAliasNameFromPartialEntry returns exactly the exact key, else exactly the keys with the typed prefix, without duplicates; in the walk a resolvable name marks exactly the record under the unique full key (UsedAlias = full key) and touches no other record or receiver (pair.resolved.*), an ambiguous name returns an error with nothing changed (pair.ambiguous).",
   COMMON_NOTE, "DESIGN.md section 4 C05"),
 "C08": (TECH,
   "Proved per pair/iteration for all inputs: an unresolvable option name without require-order appends exactly one unknown-option record with that name (pair.unknown.rec); in Pass/Warn mode the token is then in the text list verbatim (pairs.kept, opt.kept); a command descent carries text and unknown records along (cmd.carry).",
   COMMON_NOTE + " The policy step in Parse (error/warning) is covered once Parse is under contract; see evidence.", "DESIGN.md section 4 C08"),
 "C09": (TECH,
   "Proved for all inputs: with require-order the first positional that is not a command name, or the first unresolvable option, ends the loop with the verbatim tail starting at that token appended and no option touched in that iteration (text.stop, pair.unknown.stop).",
   COMMON_NOTE, "DESIGN.md section 4 C09"),
}

_todo = "contracts for the functions this property depends on are not yet discharged in this revision; no claim is made"
CLAIMED["C06"] = (TECH,
   "Proved for all inputs: every typed definer registers one fresh record under the name, wires the caller's variable (or the returned pointer) as its receiver and writes the default once (def.*); Alias registers every alias as an extra key of the SAME record (alias.keys, ModifyFn contract: existing keys keep their records, new keys map to this record); in the walk a resolved name sets Called and UsedAlias = full key on exactly that record and nothing else changes (pair.resolved.called/frame, OptsSameIter in every other iteration kind); Called/CalledAs read the table exactly.",
   COMMON_NOTE + " User-written ModifyFn values are assumed to satisfy the ModifyFn contract; the closure-private captured variable of GetEnv is assumed not to alias a receiver.", "DESIGN.md section 4 C06")
CLAIMED["C10"] = (TECH,
   "Proved for all inputs: Dispatch calls exactly the CommandFn of the node selected by Parse exactly once with the caller's context, the remaining arguments and a view rooted at that node, or none when help was called, a required option is missing or no function is set (disp.*, ghost call counter); the walk descends only on an exact command-key match of a positional token (cmd.descend) and never after '--' or the require-order stop (term.stops, text.stop exit the loop).",
   COMMON_NOTE + " Not under contract in this revision: NewCommand/copyOptionsFromParent/HelpCommand (option inheritance into commands) - that clause of the statement is NOT claimed.", "DESIGN.md section 4 C10")
CLAIMED["C11"] = (TECH,
   "Proved for all inputs: CheckRequired errs exactly when required and not called, carrying the custom message; checkRequired (sorted scan) returns an ErrorParsing-wrapped error iff some table entry is missing and names the one under the smallest key; Parse (root) and Dispatch (selected node) return that error without calling any CommandFn; help requested => help text of that level written, ErrorHelpCalled, no CommandFn, required scan not reached (disp.help); runHelp prints the parent's or the topic's help or errs on an unknown topic.",
   COMMON_NOTE + " helptext(node) is an uninterpreted name for helpOutput's result (helpOutput is a trusted contract here; its structure is the subject of C18). HelpCommand's wiring of the help command is not under contract.", "DESIGN.md section 4 C11")
CLAIMED["C12"] = (TECH,
   "Proved for all environment texts: the GetEnv modifier leaves everything unchanged for an unset/empty variable, stores true/false for any casing of true/false on bools, stores the text / strconv value for string/int/float kinds and marks the option called with the variable's name, keeps the default on invalid numerals (env.*); Save is a pure overwrite of the receiver (save.*), and the walk rewrites UsedAlias on every match (pair.resolved.called) - so a later command-line occurrence wins.",
   COMMON_NOTE + " Program order (definers run before Parse) is the user's main(); os.Getenv is an uninterpreted total function.", "DESIGN.md section 4 C12")
DAG_NOTE = ("ASSUMED (not proved): the semantics of go/channels/select/sync.Mutex as ghost events (DESIGN.md 2.5): a received message was sent by a spawned reporter/worker and names a vertex of the graph (channel invariant), "
            "a buffered channel of capacity m admits at most m un-received sends, a mutex has one owner, send happens-before receive (Go memory model). Schedules, fairness and liveness are not modelled: "
            "what is proved is every sequential ingredient - the scheduler loop body per iteration, the readiness function, the goroutine bodies against their contracts and frames. "
            "Global predicates on all Vertex objects (non-nil edges, status range) and Retries < MaxInt are preconditions; user task functions are assumed not to rewire the graph. " + COMMON_NOTE)
CLAIMED["C13"] = (TECH,
   "Proved for all graphs/statuses: getNextVertex returns only a registered vertex that is pending/skip with every dependency done or skipped (next.ready); the scheduler iteration that starts a real worker does so only with an empty error list for a vertex that was pending with all dependencies settled at the head of the iteration and marks it in-progress first (launch.real); at most one event per iteration (one.event); the worker's frame excludes task status and the error list (status is written by the scheduler loop only); the worker calls the task function between 1 and Retries+1 times, strictly sequentially, stopping at the first nil, and reports that last result once (worker.*, att.*).",
   DAG_NOTE + " Not decided here: visibility of a dependency's writes (Go memory model) and the whole-run induction 'done and no error recorded implies returned nil' (Tier B of DESIGN.md C13).", "DESIGN.md section 4 C13")
CLAIMED["C14"] = (TECH,
   "Proved per scheduler iteration: a received message marks its vertex done; a non-skip error appends exactly one entry wrapping it, nil/skip appends nothing, ErrorSkipParents marks every parent (skipParents: transitively, writing nothing but skip) (recv.*); with a non-empty error list a ready vertex is reported as skipped without running (launch.failed, errmsg.one), a skip-marked vertex is reported with nil without running (launch.skip, skipmsg.one); cancellation appends one entry once and keeps the list non-empty so no real worker can start afterwards (cancel.once, sched.cancelled, launch.real); Run returns nil only with an empty error list and non-nil with a non-empty one; the loop is left only when every vertex is done (exit.alldone, next.alldone).",
   DAG_NOTE + " 'In-flight tasks are allowed to finish' is a liveness statement and not decided.", "DESIGN.md section 4 C14")
CLAIMED["C15"] = (TECH,
   "Proved: the semaphore channel is created with capacity exactly maxParallel >= 1 (sched.cap, setmax); every call of a task function happens after this worker's send into the semaphore and before its single deferred receive, and with the task lock taken and released exactly once (att.held, worker.slot, worker.lock); in serial mode nothing is started while any vertex is in progress (next.serial, launch.serial).",
   DAG_NOTE + " The bound 'at most m running' follows from these facts only under the assumed channel-capacity and mutex axioms. Output buffering (one Write per attempt under the buffer mutex) is verified for safety only.", "DESIGN.md section 4 C15")
CLAIMED["C16"] = (TECH,
   "Proved for all construction histories (each public construction call preserves the representation invariant WF): the vertex table maps each ID to one vertex with a runnable task and every edge-list entry IS the registered vertex of its ID - re-adding a known task keeps its vertex (addtask.*, depends.*, retries.wf); TaskDependsOn records an edge on both ends (dep.edge); the cycle check returns only ErrorGraphHasCycle errors and Run returns an error before any spawn when definition errors exist (visit.cycle, dfs.cycle, run.early); getNextVertex is complete: if it returns nothing and nothing blocks it, no vertex is ready, and it reports all-done exactly when every status is done (next.complete, next.finished, next.alldone).",
   DAG_NOTE + " NOT decided: termination of Run under fair schedules (liveness), 'acyclic graphs are not rejected' and the full topological-order postcondition of DepthFirstSort.", "DESIGN.md section 4 C16")
CLAIMED["C18"] = (TECH,
   "Proved: the per-option synopsis entry mentions the option's synopsis for every one of the 12 kinds, bracketed iff not required (syn.*); the option-list entry contains the synopsis, the default iff not required, and the environment variable iff bound (list.*); Option.Synopsis puts every alias with its dashes into the synopsis (synopsis.aliases); helpOutput's option list holds every record of the level's table exactly once, aliases filtered (hopts.*), given every record is registered under its own name (NamesOK, preserved by every definer and modifier).",
   COMMON_NOTE + " The section renderers help.Synopsis / OptionList / CommandList as wholes (iteration over the sorted lists, line wrapping) and wrapFn/pad are TRUSTED frames here: 'each list element is rendered by one entry call' and the command list are not proved. Same text through the three routes: each route's output is helptext(node) by construction (naming clause).", "DESIGN.md section 4 C18")
CLAIMED["C07"] = (TECH, "wip", COMMON_NOTE, "DESIGN.md section 4 C07")
NOT_APPLICABLE = {p: _todo for p in ["C17","C19","C20"]}
