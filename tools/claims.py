HOOK_COMMITS = ["1907b11"]

TECH = "contract-based deductive verification: SMT-discharged VCs from go/ssa against in-repo contracts (govc)"

CLAIMED = {
 "C01": (TECH,
   "Postconditions of the real Option.Save (string identity, strconv oracle for numbers, error => receiver unchanged, bool/increment rules) are proved for all inputs by SMT; obligations are generated from the current source on every run.",
   "Assumes: strconv/strings/fmt library specs (uninterpreted oracles), go/ssa faithfulness, SMT solvers. Parser-level clauses (token intake, Called flag) are being brought under contract; see evidence assumptions.",
   "DESIGN.md section 4 C01"),
 "C02": (TECH,
   "Postconditions of Option.Save for slice and map kinds (append in order, inclusive int range expansion with termination, key/value split at the first '=') proved for all inputs; loop invariants and variants discharged by SMT.",
   "Assumes library specs for strings.SplitN/Contains, strconv oracles; contracts for multi-element Save calls cover len(a)==1 (what the parser issues).",
   "DESIGN.md section 4 C02"),
 "C03": (TECH, "step clauses of the argument walk", "wip", "DESIGN.md section 4 C03"),
}

_todo = "contracts for the functions this property depends on are not yet discharged in this revision; no claim is made"
NOT_APPLICABLE = {p: _todo for p in ["C04","C05","C06","C07","C08","C09","C10","C11","C12","C13","C14","C15","C16","C17","C18","C19","C20"]}
