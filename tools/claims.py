HOOK_COMMITS = []  # filled by gen_manifest from git log (commits whose subject starts with "verif:")

TECH = "contract-based deductive verification (govc): SMT-discharged verification conditions generated from go/ssa of the real functions against in-repo contracts (requires/ensures/modifies/loop invariants/variants/per-iteration step clauses)"

COMMON_NOTE = ("Trusted base: go/ssa (x/tools v0.29.0) faithfulness, the govc encoding, SMT solvers (z3 4.8.12, z3 5.1.0, cvc5 1.0), library specifications listed in the evidence "
               "(strings/strconv/fmt/sort/regexp closed form/errors). History assumptions: the definition was made through the public definers (TreeOK), Parse is called once per definition. "
               "Per-iteration step clauses are composed into the whole-run statement by the (unmechanised) induction over the token sequence described in DESIGN.md section 3.2.")

CLAIMED = {
 "C01": (TECH,
   "Proved for all inputs: isOption splits --name=value at the first '=' for every value text (incl. newlines, dashes, '='); Option.Save stores strings unchanged and numbers exactly as strconv yields them, errors leave the receiver untouched; the argument walk takes an attached value or exactly the next non-option token, marks the option called with its full key, and returns a parse error otherwise (pair.scalar.*, pair.optional.*, pair.flag.*, min.* step clauses of parseCLIArgs).",
   COMMON_NOTE, "DESIGN.md section 4 C01"),
 "C02": (TECH,
   "Proved for all inputs: Save appends in order for slice kinds, expands a..b inclusively and terminates (loop variant), splits key=value at the first '='; AddChildOption admits slice/map options only with 1<=min<=max; the minimum loop takes exactly the missing tokens or fails, the greedy loop takes a token iff it exists, is not option-looking, is not '--' and is well-formed for the element type, one token per iteration, stored by exactly one Save (min.*, max.* step clauses, min.seq/max.seq order invariants for string slices).",
   COMMON_NOTE + " Order invariants (min.seq/max.seq) are stated for []string; for []int/[]float64/map the per-token step clause (max.saved/min.saved) is proved instead.", "DESIGN.md section 4 C02"),
 "C03": (TECH,
   "Proved per iteration of the argument walk, for all argv/trees/modes: a positional is appended exactly once and verbatim (text.keep), the tail after '--' or after the require-order stop point is copied verbatim and in order (term.stops, text.stop, storeRemainingAsText), a command descent carries the collected text and unknown options to the command node (cmd.carry), an option token changes the text list by at most its own verbatim token, once (opt.once, pairs.once), and every other node's lists are untouched.",
   COMMON_NOTE, "DESIGN.md section 4 C03"),
 "C04": (TECH,
   "Proved for all inputs: isOption never classifies '--' as an option; the iteration that meets '--' leaves the loop with nothing but the verbatim tail appended and no option, node or unknown list changed (term.stops); the greedy/optional value loop never takes '--' (max.take, pair.optional.novalue).",
   COMMON_NOTE, "DESIGN.md section 4 C04"),
 "C05": (TECH,
   "Proved for all option tables: getAliasNameFromPartialEntry returns exactly the exact key, else exactly the keys with the typed prefix, without duplicates; in the walk a resolvable name marks exactly the record under the unique full key (UsedAlias = full key) and touches no other record or receiver (pair.resolved.*), an ambiguous name returns an error with nothing changed (pair.ambiguous).",
   COMMON_NOTE, "DESIGN.md section 4 C05"),
 "C08": (TECH,
   "Proved per pair/iteration for all inputs: an unresolvable option name without require-order appends exactly one unknown-option record with that name (pair.unknown.rec); in Pass/Warn mode the token is then in the text list verbatim (pairs.kept, opt.kept); a command descent carries text and unknown records along (cmd.carry).",
   COMMON_NOTE + " The policy step in Parse (error/warning) is covered once Parse is under contract; see evidence.", "DESIGN.md section 4 C08"),
 "C09": (TECH,
   "Proved for all inputs: with require-order the first positional that is not a command name, or the first unresolvable option, ends the loop with the verbatim tail starting at that token appended and no option touched in that iteration (text.stop, pair.unknown.stop).",
   COMMON_NOTE, "DESIGN.md section 4 C09"),
}

_todo = "contracts for the functions this property depends on are not yet discharged in this revision; no claim is made"
CLAIMED["C11"] = (TECH, "wip", COMMON_NOTE, "DESIGN.md section 4 C11")
NOT_APPLICABLE = {p: _todo for p in ["C06","C07","C10","C12","C13","C14","C15","C16","C17","C18","C19","C20"]}
