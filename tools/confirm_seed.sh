#!/bin/bash
# usage: confirm_seed.sh <id> <srcdir>  -- confirms a seeded change in a scratch copy of /repo (removed afterwards):
# demo passes without the patch, patch applies, builds, existing suite passes, demo fails with the patch.
set -u
id=$1; src=$2
S=$(mktemp -d /tmp/confirm.XXXXXX)
cp -r /repo/. $S/
cd $S
export GOFLAGS=-mod=mod GOPROXY=off GOSUMDB=off GOTOOLCHAIN=local
demo=$(cd $src && find . -name zz_seed_demo_test.go | head -1)
pkgdir=$(dirname $demo)
cp $src/$demo $S/$demo
r1=$(go test -vet=off -count=1 -run 'TestSeedDemo$' ./$pkgdir 2>&1 | tail -1)
git apply $src/patch.diff 2>/tmp/apply.err || { echo "$id: PATCH DOES NOT APPLY: $(cat /tmp/apply.err | head -2)"; cd /; rm -rf $S; exit 1; }
b=$(go build ./... 2>&1 | tail -1)
r2=$(go test -vet=off -count=1 -skip 'TestSeedDemo$' ./... 2>&1 | grep -v "no test files" | grep -vc "^ok")
r3=$(go test -vet=off -count=1 -run 'TestSeedDemo$' ./$pkgdir 2>&1 | tail -1)
echo "$id: demo-without-patch=[$r1] build=[$b] suite-nonok-lines=$r2 demo-with-patch=[$r3]"
cd /; rm -rf $S
