#!/usr/bin/env python3
"""Generates /verif/MANIFEST.json from the table below (kept in one place so it stays valid)."""
import json, sys

CLAIMED = {
 # id: (technique, level text, level note)
}
NOT_APPLICABLE = {}

def load():
    import importlib.util, os
    spec = importlib.util.spec_from_file_location("claims", os.path.join(os.path.dirname(__file__), "claims.py"))
    m = importlib.util.module_from_spec(spec); spec.loader.exec_module(m)
    return m.CLAIMED, m.NOT_APPLICABLE, m.HOOK_COMMITS

claimed, na, hooks = load()
import subprocess
hooks = [l.split()[0] for l in subprocess.run(["git","-C","/repo","log","--format=%h %s"],capture_output=True,text=True).stdout.splitlines() if l.split(" ",1)[1].startswith("verif:")]
checks = []
for pid in sorted(claimed):
    tech, text, note, ref = claimed[pid]
    checks.append({
        "property_id": pid,
        "quick_cmd": f"/verif/bin/govc check -property {pid} -tier quick",
        "thorough_cmd": f"/verif/bin/govc check -property {pid} -tier thorough",
        "evidence_file": f"/verif/evidence/{pid}.json",
        "replay_cmd_template": "cat {path}",
        "engine": "govc",
        "level_claimed": {"category": "proof", "text": text, "design_ref": ref},
        "level_note": note,
        "technique": tech,
    })
manifest = {
    "version": 1,
    "setup_cmd": "cd /verif/govc && GOFLAGS=-mod=vendor GOPROXY=off GOSUMDB=off GOTOOLCHAIN=local go build -o /verif/bin/govc .",
    "hooks": {
        "guard": "verif",
        "enable": "contracts are comment-only files verif_contracts.go guarded by //go:build verif; govc reads them as text next to the package sources (no instrumentation is compiled into the code)",
        "baseline_off_cmd": "cd /repo && GOFLAGS=-mod=mod GOPROXY=off GOSUMDB=off go test -vet=off -count=1 ./...",
        "source_commits": hooks,
        "add_only": True,
    },
    "engines": [{"name": "govc", "path": "/verif/govc", "serves_properties": sorted(claimed),
                 "kind_free_text": "contract-based deductive verifier for Go written for this task: contracts (requires/ensures/modifies/loop invariants/decreases) in comment-only files next to the code; weakest-precondition style VC generation by path-wise symbolic execution of go/ssa naive form with loop cutting at invariants and modular calls; obligations discharged by z3 4.8.12 / z3 5.1.0 / cvc5 1.0"}],
    "checks": checks,
    "not_applicable": [{"property_id": k, "reason": v} for k, v in sorted(na.items())],
    "notes": "See DESIGN.md. Every claimed check is decided by SMT-discharged obligations generated from /repo's current source; bounded stand-ins and assumptions are listed in each evidence file and never counted as discharged.",
}
json.dump(manifest, open("/verif/MANIFEST.json", "w"), indent=1)
print("wrote MANIFEST.json with", len(checks), "checks,", len(na), "not_applicable")
