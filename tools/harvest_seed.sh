#!/bin/bash
# usage: harvest_seed.sh <id> <property>  -- takes patch.diff / demo / notes from /tmp/seedwt/<id>, confirms them on a scratch copy of
# /repo HEAD, stores them as /verif/seeded/<id>/, runs the property's quick check against the patch, removes the worktree.
set -u
id=$1; prop=$2
wt=/tmp/seedwt/$id
dst=/verif/seeded/$id
[ -f $wt/patch.diff ] || { echo "$id: no patch.diff"; exit 1; }
mkdir -p $dst
cp $wt/patch.diff $dst/patch.diff
[ -f $wt/seed_notes.txt ] && cp $wt/seed_notes.txt $dst/seed_notes.txt
demo=$(cd $wt && find . -name zz_seed_demo_test.go | head -1)
[ -n "$demo" ] || { echo "$id: no demo"; exit 1; }
mkdir -p $dst/$(dirname $demo); cp $wt/$demo $dst/$demo
conf=$(/verif/tools/confirm_seed.sh $id $dst 2>&1 | tail -1)
echo "$conf"
det=$(/verif/tools/run_seed.sh $dst/patch.diff $prop 2>&1 | tail -1)
echo "$det"
python3 - "$id" "$prop" "$conf" "$det" "$demo" <<'PY'
import json,sys,os,datetime
id,prop,conf,det,demo=sys.argv[1:6]
dst='/verif/seeded/'+id
notes=open(dst+'/seed_notes.txt').read().splitlines() if os.path.exists(dst+'/seed_notes.txt') else []
json.dump({"id":id,"property":prop,"origin":"written by a fresh sub-agent that saw only the property text and a scratch worktree without the contract files",
 "demo":demo.lstrip('./'),"needs_to_manifest":notes,"confirmed":conf,"ran":"tools/confirm_seed.sh (scratch copy of /repo HEAD: demo passes without the patch, patch applies, builds, existing suite passes, demo fails with it); tools/run_seed.sh (git -C /repo apply; govc check; git checkout)",
 "detection_at_harvest":det}, open(dst+'/meta.json','w'), indent=1)
PY
git -C /repo worktree remove --force $wt 2>/dev/null; rm -rf $wt
git -C /repo worktree prune
