#!/bin/bash
# usage: mk_seed_worktree.sh <name>  -- scratch git worktree of /repo HEAD under /tmp/seedwt/<name> WITHOUT the contract files
# (they are removed from the working copy and hidden from git status/diff, so a sub-agent sees nothing of the verification work).
set -eu
d=/tmp/seedwt/$1
git -C /repo worktree add -q --detach $d HEAD
cd $d
for f in $(git ls-files | grep 'verif_contracts.go$'); do git update-index --skip-worktree $f; rm -f $f; done
echo $d
