#!/bin/bash
# usage: run_benign.sh <patch.diff> [props...] -- applies a behaviour-preserving change to /repo, runs the quick checks, reverts.
# Any VIOLATION here is a false alarm (brittleness) to be analysed.
set -u
patch=$1; shift
props=${@:-C01 C02 C03 C04 C05 C06 C07 C08 C09 C10 C11 C12 C13 C14 C15 C16 C17 C18 C19 C20}
cd /repo || exit 2
if ! git diff --quiet; then echo "/repo has uncommitted changes; refusing"; exit 2; fi
git apply --check "$patch" 2>/dev/null || { echo "PATCH DOES NOT APPLY"; exit 3; }
git apply "$patch"
trap 'git -C /repo checkout -- . ; git -C /repo clean -fdq -- . 2>/dev/null' EXIT
export GOFLAGS=-mod=mod GOPROXY=off GOSUMDB=off GOTOOLCHAIN=local
go build ./... 2>/dev/null || { echo "DOES NOT COMPILE"; exit 4; }
for p in $props; do
  out=$(/verif/bin/govc check -property $p 2>&1)
  n=$(echo "$out" | grep -c '^VIOLATION')
  if [ "$n" -gt 0 ]; then
    echo "$p FALSE-ALARM ($n): $(echo "$out" | grep '^FAILED-OBLIGATION' | awk '{print $2}' | sed 's/#[0-9]*$//' | sort -u | head -6 | tr '\n' ' ')"
  else
    echo "$p green"
  fi
done
