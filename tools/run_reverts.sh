#!/bin/bash
# Re-introduces every repaired defect (reverse patch of its fix: commit, selftest/patches/mutant-revert-<hash>.diff) and runs
# the quick check of each property whose known_findings entry names that commit: the violation must be reported again.
cd /verif
for pf in selftest/patches/mutant-revert-*.diff; do
  h=$(basename $pf .diff | sed 's/mutant-revert-//')
  props=$(python3 -c "
import json
print(' '.join(sorted({e['property'] for e in json.load(open('/verif/known_findings.json')) if e.get('commit')=='$h'})))")
  r=$(/verif/tools/run_seed.sh /verif/$pf $props 2>&1 | tr '\n' ';' | cut -c1-400)
  echo "revert $h [$props]: $r"
done
