#!/bin/bash
# usage: run_seed.sh <patch.diff> [property ids...]  -- applies a seeded change to /repo, runs the quick checks, reverts.
# Prints one line per property: DETECTED / missed, and leaves /repo exactly as before.
set -u
patch=$1; shift
props=${@:-C01 C02 C03 C04 C05 C06 C07 C08 C09 C10 C11 C12 C13 C14 C15 C16 C17 C18 C19 C20}
cd /repo || exit 2
if ! git diff --quiet; then echo "/repo has uncommitted changes; refusing"; exit 2; fi
if ! git apply --check "$patch" 2>/dev/null; then echo "PATCH DOES NOT APPLY"; exit 3; fi
git apply "$patch"
trap 'git -C /repo checkout -- . ; git -C /repo clean -fdq -- . 2>/dev/null' EXIT
export GOFLAGS=-mod=mod GOPROXY=off GOSUMDB=off GOTOOLCHAIN=local
if ! go build ./... 2>/dev/null; then echo "DOES NOT COMPILE"; exit 4; fi
for p in $props; do
  out=$(/verif/bin/govc check -property $p 2>&1)
  n=$(echo "$out" | grep -c '^VIOLATION')
  if [ "$n" -gt 0 ]; then
    echo "$p DETECTED ($n): $(echo "$out" | grep '^FAILED-OBLIGATION' | awk '{print $2}' | sed 's/#[0-9]*$//' | sort -u | head -4 | tr '\n' ' ')"
  else
    echo "$p missed"
  fi
done
