#!/bin/bash
# Runs every stored seed against the quick check of the property it breaks and writes /verif/seeded/RESULTS.md.
# /repo must be clean; each patch is applied with git apply and reverted straight afterwards (run_seed.sh).
cd /verif/seeded
out=/verif/seeded/RESULTS.md
{
echo "# Seeded changes: which check catches which change"
echo
echo "Produced by tools/seed_matrix.sh on $(date -u +%Y-%m-%dT%H:%MZ) at /verif $(git -C /verif rev-parse --short HEAD), /repo $(git -C /repo rev-parse --short HEAD)."
echo "Each change was written by a sub-agent that saw only the property text; it compiles, passes the existing suite and fails its own demonstration (meta.json)."
echo
echo "| seed | property | verdict of the property's quick check | obligations that failed (first few) |"
echo "|---|---|---|---|"
for d in */; do
  id=${d%/}
  # resumable: rows already present in $KEEP (a previous partial table) are copied instead of re-run
  if [ -n "${KEEP:-}" ] && grep -q "^| $id |" "$KEEP"; then grep "^| $id |" "$KEEP"; continue; fi
  prop=$(python3 -c "import json;print(json.load(open('$id/meta.json'))['property'])")
  r=$(/verif/tools/run_seed.sh /verif/seeded/$id/patch.diff $prop 2>&1 | tail -1)
  verdict=$(echo "$r" | awk '{print $2, $3}')
  obl=$(echo "$r" | sed 's/^[^:]*: //' | sed 's/getoptions\.//g')
  case "$r" in *DETECTED*) ;; *) obl="-";; esac
  echo "| $id | $prop | $verdict | $obl |"
done
} > $out
cat $out
