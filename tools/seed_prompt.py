#!/usr/bin/env python3
"""usage: seed_prompt.py <property-id> <worktree-name> [extra hint]  -- prints the prompt for a seeding sub-agent (property text only, nothing from /verif)."""
import json, sys
pid, wt = sys.argv[1], sys.argv[2]
extra = sys.argv[3] if len(sys.argv) > 3 else ""
p = [json.loads(l) for l in open('/verif/properties.jsonl') if json.loads(l)['id'] == pid][0]
print(f"""You are helping test a verification effort by playing the role of a developer who introduces a subtle regression.

Project: the Go library DavidGamba/go-getoptions (command-line option parser with subcommands, abbreviations, bundling modes, shell completion, help generation, plus a small parallel DAG task runner in ./dag). You have your own scratch git worktree of it at /tmp/seedwt/{wt} — work ONLY inside that directory (never touch /repo or /verif, never read git history or other directories under /tmp; just the working-tree files). The sandbox has no network; prefix every go command with:
  GOFLAGS=-mod=mod GOPROXY=off GOSUMDB=off GOTOOLCHAIN=local

The property that must be broken (this is all you get; it is a behavioural statement about the library):

  {p['id']} — {p['title']}
  {p['statement']}
  (Quantified over: {p['quantifier']['text']})

Your task: make a change to the library's NON-test source (.go files that are not *_test.go) in the worktree that BREAKS this property, such that
  1. `go build ./...` still succeeds and the COMPLETE existing test suite still passes: `go test -vet=off -count=1 ./...` (all packages ok);
  2. the change looks like something a developer could plausibly commit (a refactor, an optimisation, a "simplification", a well-meant fix) — not sabotage with a magic constant;
  3. the breakage needs something SPECIFIC to manifest — an unusual input, a multi-step sequence of operations, a particular interleaving/schedule, a particular option-definition shape, or two cooperating edits at different sites that each look fine alone — NOT something ordinary use exposes at once. Prefer changes away from the single most obvious line; changes in helper functions, definition-time code, or in how two functions cooperate are welcome.
  {extra}
Then write a demonstration: a Go test file named zz_seed_demo_test.go (in the package directory it tests, package name matching that directory's tests or the package itself) with a test function `TestSeedDemo` that FAILS with your change and PASSES on the original source. Verify both: run it with the change (must fail); then save the change with `git diff -- . ':!zz_seed_demo_test.go' ':!*/zz_seed_demo_test.go' > patch.diff`, undo it with `git apply -R patch.diff`, run the demo again (must pass), and re-apply with `git apply patch.diff`. Do NOT use `git stash`, `git commit`, `git checkout` of other revisions or any other git command that writes to the shared repository (other people use worktrees of the same repository). Make the test deterministic (if a schedule is needed, force it with channels/sleeps in the task functions, and bound any wait with a timeout so that a hang fails the test instead of blocking).

Finally, in the worktree root write:
  - patch.diff: as produced above (only the library change; make sure patch.diff itself and the demo are not in it);
  - seed_notes.txt: which sentence of the property is broken, what exactly is needed for it to manifest, and the commands you ran with their outcomes.
Leave the worktree with the change applied and both files present. Reply with a short summary (changed file/function, what it needs to manifest, test results). Do not stop until the demo fails with the change, passes without it, and the full existing suite passes with the change.""")
